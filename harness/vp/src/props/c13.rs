//! C13 — backends see the client's request plus truthful, unspoofable proxy metadata (DESIGN §4 C13).
//!
//! Wire lab, HTTP/1.1 client -> HTTP/1.1 backend through a live worker's plain HTTP listeners
//! (`lab::hdrlab`): five listeners with different header settings, three clusters (plain, sticky,
//! per-frontend header edits), byte-exact peers (sub-check `h1h1`). The three conversions involving HTTP/2
//! (and TLS) are sub-check `h2paths` in `c13_h2.rs`, which reuses the judgement functions of this file.

use std::{
    cell::RefCell,
    collections::{BTreeMap, BTreeSet},
    io::Write,
    net::{IpAddr, Ipv4Addr, Ipv6Addr, SocketAddr},
    time::{Duration, Instant},
};

use proptest::prelude::*;
use serde::{Deserialize, Serialize};

use crate::{
    engine::{self, Args, CaseReport, CheckResult, Evidence, Failure, Stats, pick_idx},
    lab::{
        self, LabConfig,
        hdrlab::{self, CLUSTERS, EDIT_CLUSTER, Fields, HdrLab, LISTENERS, ListenerCfg, RawConn, RawMsg, RawOut, RespPlan, lossy, show_fields},
    },
};

// ------------------------------------------------------------------ case

#[derive(Clone, Debug, Serialize, Deserialize, PartialEq)]
pub enum Src {
    /// connect from 127.a.b.c
    Direct { ip: [u8; 3] },
    ProxyV4 { src: [u8; 4], sport: u16, dst: [u8; 4], dport: u16 },
    ProxyV6 { src: [u8; 16], sport: u16, dst: [u8; 16], dport: u16 },
}

/// Field values are strings of chars U+0000..U+00FF, one char = one byte on the wire.
pub type Hdr = (String, String);

#[derive(Clone, Debug, Serialize, Deserialize)]
pub struct Resp {
    pub status: u16,
    pub headers: Vec<Hdr>,
    pub body_len: u16,
    pub chunked: bool,
}

#[derive(Clone, Debug, Serialize, Deserialize)]
pub struct Req {
    pub cluster: u8,
    pub method: String,
    pub target: String,
    pub headers: Vec<Hdr>,
    pub body_len: u16,
    pub chunked: bool,
    pub trailers: Vec<Hdr>,
    /// write the request in two pieces, split at this offset
    pub split: Option<u16>,
    pub resp: Resp,
}

#[derive(Clone, Debug, Serialize, Deserialize)]
pub struct Case {
    pub listener: u8,
    pub src: Src,
    pub reqs: Vec<Req>,
    /// Known finding excluded by construction unless `strict` (regression files only):
    /// * a trailer field named like proxy metadata the head rules protect, see `trailer_protected` (HTTP/1.1
    ///   trailers are forwarded unfiltered: `C13/proxy-metadata-via-trailer`).
    /// Repaired and therefore generated freely: a client field named like the correlation header, several
    /// X-Request-Id fields in one head, a non-sticky cluster after a sticky one on one connection.
    pub strict: bool,
    /// fields removed by the exclusion above when the case was generated
    pub excluded: u32,
}

pub(super) fn bytes(s: &str) -> Vec<u8> {
    s.chars().map(|c| c as u32 as u8).collect()
}

pub(super) fn lc(b: &[u8]) -> String {
    b.iter().map(|c| c.to_ascii_lowercase() as char).collect()
}

pub(super) fn fields(h: &[Hdr]) -> Fields {
    h.iter().map(|(n, v)| (bytes(n), bytes(v))).collect()
}

impl Case {
    pub fn cfg(&self) -> &'static ListenerCfg {
        &LISTENERS[self.listener as usize % LISTENERS.len()]
    }
}

/// Names a client must not be able to deliver to the backend through the trailer section: in the head sozu
/// either removes them (correlation header per the property, X-Real-IP under `elide_x_real_ip`), allows one
/// (X-Request-Id: the trailer one is always a second one) or appends its own truthful element AFTER the client's
/// (X-Forwarded-For, Forwarded: a trailer line comes after sozu's element). sozu's H2 trailer path
/// (`pkawa::handle_trailer`) elides exactly these for this reason.
pub(super) fn trailer_protected(name_lc: &str, cfg: &ListenerCfg) -> bool {
    name_lc == cfg.corr.to_ascii_lowercase() || name_lc == "x-request-id" || name_lc == "x-forwarded-for" || name_lc == "forwarded" || (name_lc == "x-real-ip" && cfg.elide)
}

/// The by-construction exclusion (see `Case::strict`). Returns the number of fields removed.
pub fn sanitise(case: &mut Case) -> u32 {
    let cfg = *case.cfg();
    let mut removed = 0;
    let corr = cfg.corr.to_ascii_lowercase();
    let _ = &corr;
    // head fields are no longer sanitised: the client-copy-of-the-correlation-header and duplicate
    // X-Request-Id findings are repaired (see known_findings.jsonl, `fixed`)
    // nothing is sanitised any more: the trailer finding is repaired as well
    let mut keep = |_n: &str, _trailer: bool, _seen_rid: &mut bool| -> bool { true };
    let _ = (&cfg, &mut removed);
    for r in case.reqs.iter_mut() {
        let mut seen_rid = false;
        r.headers.retain(|(n, _)| keep(n, false, &mut seen_rid));
        r.trailers.retain(|(n, _)| keep(n, true, &mut seen_rid));
    }
    removed
}

// ------------------------------------------------------------------ generator

pub(super) const MANAGED: &[&str] = &["X-Forwarded-For", "X-Forwarded-For", "Forwarded", "Forwarded", "X-Real-IP", "X-Real-IP", "X-Forwarded-Proto", "X-Forwarded-Port", "X-Request-Id", "Sozu-Id", "X-Edge-Trace", "X-Forwarded-Host"];
const E2E: &[&str] = &["X-A", "X-B", "X-C", "Accept", "User-Agent", "Authorization", "X-Del-Req", "X-Del-Both", "X-Edit-Req", "X-Edit-Both", "X-Del-Resp", "Cache-Control", "X-Hop1"];
const HOP: &[&str] = &["Connection", "Connection", "Connection", "Keep-Alive", "TE", "Upgrade", "Proxy-Connection", "X-Hop1", "X-Hop1", "X-Hop2"];
const CONNECTION_VALUES: &[&str] = &["keep-alive", "close", "Keep-Alive, X-Hop1", "x-hop1, x-hop2", "X-Hop1", "x-hop1", "upgrade", "TE, x-hop1", "Close", "x-hop2", "X-Real-IP", "x-forwarded-for, keep-alive", "", "keep-alive, close"];
const RESP_NAMES: &[&str] = &[
    "Set-Cookie", "Set-Cookie", "Connection", "Cache-Control", "Content-Type", "Location", "X-R1", "X-R2", "X-Del-Resp", "X-Del-Both", "X-Edit-Resp", "X-Edit-Both", "@corr", "Sozu-Id", "Strict-Transport-Security",
    "Keep-Alive", "Vary", "X-Forwarded-For", "X-Request-Id", "Server",
];

fn typical(name_lc: &str, x: u32) -> String {
    let pool: &[&str] = match name_lc {
        "x-forwarded-for" => &["203.0.113.7", "203.0.113.7, 198.51.100.2", "unknown", "127.0.0.1", "2001:db8::1", "10.0.0.1,10.0.0.2 ,10.0.0.3", ", ", "8.8.8.8,"],
        "forwarded" => &["for=203.0.113.7", "for=\"[2001:db8::1]:4711\";proto=https;by=198.51.100.1", "for=1.2.3.4, for=5.6.7.8;host=evil.example", "proto=https", "for=_hidden;by=_sozu", "FOR=127.0.0.1;Proto=http"],
        "x-real-ip" => &["6.6.6.6", "127.0.0.1", "2001:db8::6", "unknown", "10.1.1.1, 10.2.2.2"],
        "x-forwarded-proto" => &["https", "http", "HTTPS", "wss", "https, http"],
        "x-forwarded-port" => &["443", "80", "0", "99999", "8443, 80"],
        "x-request-id" => &["client-req-1", "01ARZ3NDEKTSV4RRFFQ69G5FAV", "7f3c1b2a-0000-4000-8000-000000000000", "a b"],
        "sozu-id" | "x-edge-trace" | "@corr" => &["01ARZ3NDEKTSV4RRFFQ69G5FAV", "01BX5ZZKBKACTAV9WEVGEMMVRZ", "spoofed", "00000000000000000000000000"],
        "x-forwarded-host" => &["evil.example", "plain.lab"],
        "keep-alive" => &["timeout=5, max=100", "timeout=1"],
        "te" => &["trailers", "trailers, deflate;q=0.5", "gzip"],
        "upgrade" => &["websocket", "h2c", "foo/2"],
        "proxy-connection" => &["keep-alive", "close"],
        "connection" => CONNECTION_VALUES,
        "accept" => &["*/*", "text/html, application/json;q=0.9"],
        "user-agent" => &["lab/1.0 (c13)", "curl/8.0"],
        "authorization" => &["Basic dXNlcjpwYXNz", "Bearer abc.def.ghi"],
        "cache-control" => &["no-cache", "max-age=0, private"],
        "content-type" => &["text/plain", "application/json; charset=utf-8"],
        "location" => &["/elsewhere", "http://plain.lab/x?y=1"],
        "strict-transport-security" => &["max-age=31536000", "max-age=0; includeSubDomains"],
        "vary" => &["Accept-Encoding", "*"],
        "server" => &["mock", ""],
        _ => &["1", "v", "yes", "a,b"],
    };
    pool[pick_idx(x, pool.len())].to_string()
}

pub(super) fn generic_value() -> BoxedStrategy<String> {
    prop_oneof![
        4 => Just(String::new()),
        7 => "[a-zA-Z0-9._~-]{1,24}",
        5 => "[ -!#-~]{0,40}",
        2 => ("[a-z]{1,8}", 150usize..1800).prop_map(|(s, n)| s.repeat(n / s.len() + 1)),
        1 => ("[a-z]{0,6}", 0x80u32..=0xFF, "[a-z]{0,6}").prop_map(|(a, c, b)| format!("{a}{}{b}", char::from_u32(c).unwrap())),
        2 => ("[a-z]{1,6}", "[a-z]{1,6}").prop_map(|(a, b)| format!("{a}\t {b}")),
        2 => ("[a-z0-9]{1,6}", "[a-z0-9]{0,6}", "[a-z0-9]{1,6}").prop_map(|(a, b, c)| format!("{a}, {b},{c}")),
        2 => "[a-z]{1,6}".prop_map(|a| format!("\"{a}, q\"")),
    ]
    .boxed()
}

/// (name or placeholder, value, case mask)
pub(super) fn name_value(names: &'static [&'static str]) -> BoxedStrategy<(String, String, u32)> {
    (any::<u32>(), any::<u32>(), prop_oneof![3 => Just(None), 2 => generic_value().prop_map(Some)], prop_oneof![3 => Just(0u32), 1 => any::<u32>()])
        .prop_map(move |(ni, ti, gv, mask)| {
            let name = names[pick_idx(ni, names.len())].to_string();
            let value = gv.unwrap_or_else(|| typical(&name.to_ascii_lowercase(), ti));
            (name, value, mask)
        })
        .boxed()
}

const CRUMB_NAMES: &[&str] = &["sid", "theme", "@sticky", "@sticky", "SOZUBALANCEID", "LABSTICK", "sozubalanceid", "Labstick", "a", "@sticky2"];
const CRUMB_VALUES: &[&str] = &["1", "abc", "@backend", "@backend", "bogus-backend", "", "k=v", "hello world", "sticky-0", "plain-0", "0123456789abcdef0123456789abcdef"];

pub(super) fn cookie_header() -> BoxedStrategy<(String, String, u32)> {
    (prop::collection::vec((any::<u32>(), any::<u32>()), 1..5), prop_oneof![4 => Just("; "), 1 => Just(";"), 1 => Just(";  ")], prop_oneof![4 => Just(0u32), 1 => any::<u32>()])
        .prop_map(|(crumbs, sep, mask)| {
            let v: Vec<String> = crumbs.iter().map(|(n, v)| format!("{}={}", CRUMB_NAMES[pick_idx(*n, CRUMB_NAMES.len())], CRUMB_VALUES[pick_idx(*v, CRUMB_VALUES.len())])).collect();
            ("Cookie".to_string(), v.join(sep), mask)
        })
        .boxed()
}

fn request_header() -> BoxedStrategy<(String, String, u32)> {
    prop_oneof![5 => name_value(MANAGED), 2 => cookie_header(), 2 => name_value(HOP), 4 => name_value(E2E)].boxed()
}

fn recase(name: &str, mask: u32) -> String {
    if mask == 0 {
        return name.to_string();
    }
    name.chars().enumerate().map(|(i, c)| if mask >> (i % 32) & 1 == 1 { if c.is_ascii_lowercase() { c.to_ascii_uppercase() } else { c.to_ascii_lowercase() } } else { c }).collect()
}

/// a generated list plus duplicates of some of its entries (same name, other value) at other positions
pub(super) fn header_list(item: fn() -> BoxedStrategy<(String, String, u32)>, max: usize) -> BoxedStrategy<Vec<(String, String, u32)>> {
    (prop::collection::vec(item(), 0..max), prop::collection::vec((any::<u32>(), any::<u32>(), any::<u32>(), prop_oneof![2 => Just(None), 1 => generic_value().prop_map(Some)], any::<u32>()), 0..3))
        .prop_map(|(mut list, dups)| {
            for (src, pos, ti, gv, mask) in dups {
                if list.is_empty() {
                    break;
                }
                let (name, _, _) = list[pick_idx(src, list.len())].clone();
                let value = if name == "Cookie" {
                    format!("{}={}", CRUMB_NAMES[pick_idx(ti, CRUMB_NAMES.len())], CRUMB_VALUES[pick_idx(mask, CRUMB_VALUES.len())])
                } else {
                    gv.unwrap_or_else(|| typical(&name.to_ascii_lowercase(), ti))
                };
                let at = pick_idx(pos, list.len() + 1);
                list.insert(at, (name, value, if mask % 3 == 0 { mask } else { 0 }));
            }
            list
        })
        .boxed()
}

pub(super) fn response_header() -> BoxedStrategy<(String, String, u32)> {
    prop_oneof![
        3 => name_value(RESP_NAMES),
        1 => (any::<u32>(), any::<u32>()).prop_map(|(n, v)| (
            "Set-Cookie".to_string(),
            format!("{}={}; Path=/", CRUMB_NAMES[pick_idx(n, CRUMB_NAMES.len())], CRUMB_VALUES[pick_idx(v, CRUMB_VALUES.len())]),
            0u32
        )),
    ]
    .boxed()
}

const METHODS: &[&str] = &["GET", "GET", "POST", "PUT", "DELETE", "PATCH", "OPTIONS"];
const TARGETS: &[&str] = &["/", "/c13/a", "/c13/a/b?x=1&y=2", "/%7Euser/a%20b", "/c13?x-forwarded-for=1.2.3.4", "/a//b/../c", "@abs", "/;p=1?q#frag", "/very/long/path/segment/0123456789/0123456789/0123456789/0123456789/0123456789"];
const STATUSES: &[u16] = &[200, 200, 200, 201, 404, 500, 302, 204, 304];

fn raw_req() -> impl Strategy<Value = (u32, u32, u32, Vec<(String, String, u32)>, u16, bool, Vec<(String, String, u32)>, Option<u16>, (u32, Vec<(String, String, u32)>, u16, bool))> {
    (
        any::<u32>(),
        any::<u32>(),
        any::<u32>(),
        header_list(request_header, 9),
        prop_oneof![2 => Just(0u16), 2 => 1u16..1500],
        any::<bool>(),
        prop_oneof![1 => Just(vec![]), 1 => prop::collection::vec(prop_oneof![3 => name_value(MANAGED), 1 => name_value(E2E)], 1..4)],
        prop_oneof![3 => Just(None), 1 => (1u16..400).prop_map(Some)],
        (any::<u32>(), header_list(response_header, 7), prop_oneof![1 => Just(0u16), 2 => 1u16..1500], any::<bool>()),
    )
}

fn src_strategy() -> impl Strategy<Value = (Src, Src)> {
    let v4 = prop_oneof![Just([203u8, 0, 113, 9]), Just([10, 0, 0, 1]), Just([127, 0, 0, 1]), Just([255, 255, 255, 255]), Just([0, 0, 0, 0]), any::<[u8; 4]>()];
    let v6 = prop_oneof![
        Just([0x20, 0x01, 0x0d, 0xb8, 0, 0, 0, 0, 0, 0, 0, 0, 0, 0, 0, 1]),
        Just([0, 0, 0, 0, 0, 0, 0, 0, 0, 0, 0, 0, 0, 0, 0, 1]),
        Just([0, 0, 0, 0, 0, 0, 0, 0, 0, 0, 0xff, 0xff, 192, 0, 2, 33]),
        Just([0xfe, 0x80, 0, 0, 0, 0, 0, 0, 0, 0, 0, 0, 0, 0, 0xab, 0xcd]),
        any::<[u8; 16]>(),
    ];
    let port = prop_oneof![Just(1u16), Just(80), Just(65535), any::<u16>()];
    (
        (1u8..=254, any::<u8>(), 1u8..=254).prop_map(|(a, b, c)| Src::Direct { ip: [a % 4, b % 3, c] }),
        prop_oneof![
            (v4.clone(), port.clone(), v4, port.clone()).prop_map(|(src, sport, dst, dport)| Src::ProxyV4 { src, sport, dst, dport }),
            (v6.clone(), port.clone(), v6, port).prop_map(|(src, sport, dst, dport)| Src::ProxyV6 { src, sport, dst, dport }),
        ],
    )
}

pub(super) fn resolve(list: Vec<(String, String, u32)>, cfg: &ListenerCfg, cluster: usize, forwarded_balanced: bool) -> Vec<Hdr> {
    let other_sticky = if cfg.sticky == hdrlab::STICKY_DEFAULT { hdrlab::STICKY_CUSTOM } else { hdrlab::STICKY_DEFAULT };
    list.into_iter()
        .map(|(n, v, mask)| {
            let n = if n == "@corr" { cfg.corr.to_string() } else { n };
            let mut v = v.replace("@sticky2", other_sticky).replace("@sticky", cfg.sticky).replace("@backend", CLUSTERS[cluster].2);
            if forwarded_balanced && n.eq_ignore_ascii_case("forwarded") && v.matches('"').count() % 2 == 1 {
                v = v.replace('"', "");
            }
            (recase(&n, mask), v)
        })
        .collect()
}

pub fn strategy() -> impl Strategy<Value = Case> {
    (any::<u32>(), src_strategy(), prop::collection::vec(raw_req(), 1..4)).prop_map(|(l, (direct, proxied), raws)| {
        let listener = pick_idx(l, LISTENERS.len()) as u8;
        let cfg = &LISTENERS[listener as usize];
        let src = if cfg.expect_proxy { proxied } else { direct };
        let reqs = raws
            .into_iter()
            .map(|(c, m, t, headers, body_len, chunked, trailers, split, (st, rh, rlen, rchunked))| {
                let cluster = pick_idx(c, CLUSTERS.len());
                let method = METHODS[pick_idx(m, METHODS.len())].to_string();
                let has_body = matches!(method.as_str(), "POST" | "PUT" | "PATCH");
                let target = match TARGETS[pick_idx(t, TARGETS.len())] {
                    "@abs" => format!("http://{}/abs?q=1", CLUSTERS[cluster].1),
                    t => t.to_string(),
                };
                let mut headers = resolve(headers, cfg, cluster, true);
                // keep the head well inside sozu's buffer
                let mut total = 0;
                headers.retain(|(n, v)| {
                    total += n.len() + v.len() + 4;
                    total < 9000
                });
                let chunked = has_body && chunked;
                let mut rh = resolve(rh, cfg, cluster, false);
                let mut rtotal = 0;
                rh.retain(|(n, v)| {
                    rtotal += n.len() + v.len() + 4;
                    // obs-text in a response is the backend's doing, not in the property's quantifier for requests; keep responses clean ASCII
                    rtotal < 9000 && v.chars().all(|c| (c as u32) < 0x7f)
                });
                Req {
                    cluster: cluster as u8,
                    method,
                    target,
                    headers,
                    body_len: if has_body { body_len } else { 0 },
                    chunked,
                    trailers: if chunked { resolve(trailers, cfg, cluster, true).into_iter().filter(|(_, v)| v.len() < 600 && v.chars().all(|c| (c as u32) < 0x7f)).collect() } else { vec![] },
                    split,
                    resp: Resp { status: STATUSES[pick_idx(st, STATUSES.len())], headers: rh, body_len: rlen, chunked: rchunked },
                }
            })
            .collect();
        let mut case = Case { listener, src, reqs, strict: false, excluded: 0 };
        case.excluded = sanitise(&mut case);
        case
    })
}


// ------------------------------------------------------------------ oracle helpers

pub(super) type Grouped = BTreeMap<String, Vec<Vec<u8>>>;

pub(super) fn group(f: &Fields) -> Grouped {
    let mut g = Grouped::new();
    for (n, v) in f {
        g.entry(lc(n)).or_default().push(trim(v).to_vec());
    }
    g
}

pub(super) fn get<'a>(g: &'a Grouped, n: &str) -> &'a [Vec<u8>] {
    g.get(n).map(|v| v.as_slice()).unwrap_or(&[])
}

pub(super) fn show(v: &[Vec<u8>]) -> String {
    format!("{:?}", v.iter().map(|x| engine::truncate(&lossy(x), 100)).collect::<Vec<_>>())
}

pub(super) fn trim(v: &[u8]) -> &[u8] {
    let mut a = 0;
    let mut b = v.len();
    while a < b && (v[a] == b' ' || v[a] == b'\t') {
        a += 1;
    }
    while b > a && (v[b - 1] == b' ' || v[b - 1] == b'\t') {
        b -= 1;
    }
    &v[a..b]
}

/// the comma-separated elements of a list-valued field given as several lines
pub(super) fn elements(lines: &[Vec<u8>]) -> Vec<Vec<u8>> {
    lines.iter().flat_map(|l| l.split(|b| *b == b',').map(|e| trim(e).to_vec()).collect::<Vec<_>>()).collect()
}

pub(super) fn crumbs(lines: &[Vec<u8>]) -> Vec<Vec<u8>> {
    lines.iter().flat_map(|l| l.split(|b| *b == b';').map(|e| trim(e).to_vec()).filter(|e| !e.is_empty()).collect::<Vec<_>>()).collect()
}

fn is_ulid(v: &[u8]) -> bool {
    v.len() == 26 && v.iter().all(|c| b"0123456789ABCDEFGHJKMNPQRSTVWXYZ".contains(c))
}

fn same_ip(a: IpAddr, b: IpAddr) -> bool {
    a.to_canonical() == b.to_canonical()
}

fn ip_of(v: &[u8]) -> Option<IpAddr> {
    std::str::from_utf8(v).ok()?.parse().ok()
}

/// `ip`, `ip:port`, `[v6]`, `[v6]:port`
fn node(s: &str) -> Option<(IpAddr, Option<u16>)> {
    if let Some(rest) = s.strip_prefix('[') {
        let (ip, tail) = rest.split_once(']')?;
        let ip: Ipv6Addr = ip.parse().ok()?;
        return match tail.strip_prefix(':') {
            Some(p) => Some((ip.into(), Some(p.parse().ok()?))),
            None if tail.is_empty() => Some((ip.into(), None)),
            None => None,
        };
    }
    if let Ok(ip) = s.parse::<IpAddr>() {
        return Some((ip, None));
    }
    let (ip, p) = s.rsplit_once(':')?;
    Some((ip.parse::<Ipv4Addr>().ok()?.into(), Some(p.parse().ok()?)))
}

fn forwarded_params(e: &[u8]) -> BTreeMap<String, String> {
    let mut m = BTreeMap::new();
    for p in e.split(|b| *b == b';') {
        let p = String::from_utf8_lossy(trim(p)).to_string();
        if let Some((k, v)) = p.split_once('=') {
            m.insert(k.trim().to_ascii_lowercase(), v.trim().trim_matches('"').to_string());
        }
    }
    m
}

/// remove one occurrence of a value satisfying `pred` so that the rest equals `want`
fn minus_one(have: &[Vec<u8>], want: &[Vec<u8>], pred: impl Fn(&[u8]) -> bool) -> bool {
    if have.len() != want.len() + 1 {
        return false;
    }
    (0..have.len()).any(|i| pred(&have[i]) && have[..i].iter().chain(have[i + 1..].iter()).eq(want.iter()))
}

pub(super) const HOP_BASE: &[&str] = &["connection", "keep-alive", "proxy-connection", "te", "upgrade", "transfer-encoding", "content-length", "trailer"];

pub(super) struct Peer {
    pub(super) ip: IpAddr,
    pub(super) port: u16,
    /// addresses that may be reported as the listener's public address
    pub(super) public: Vec<SocketAddr>,
}

/// `have` is `want` plus one `<sticky name>=...; Path=/` cookie
fn plus_any_sticky(have: &[Vec<u8>], want: &[Vec<u8>], sticky: &str) -> bool {
    let p = format!("{sticky}=").into_bytes();
    minus_one(have, want, |v| v.starts_with(&p) && v.ends_with(b"; Path=/"))
}

pub(super) struct Ctx<'a> {
    /// an earlier request on this connection went to a sticky cluster
    pub(super) sticky_seen: bool,
    pub(super) cfg: &'a ListenerCfg,
    pub(super) peer: &'a Peer,
    pub(super) cluster: usize,
    pub(super) i: usize,
    /// the scheme of the listener the client is connected to: "http" (h1h1 and the plain listener of h2paths) or "https"
    pub(super) proto: &'static str,
}

/// what the backend received against what the client sent
pub(super) fn check_request(cx: &Ctx, sent: &RawMsg, got: &RawMsg) -> Result<(), Failure> {
    let (cfg, peer, i) = (cx.cfg, cx.peer, cx.i);
    let corr = cfg.corr.to_ascii_lowercase();
    let ctx = |what: &str| format!("request {i} on listener {:?} from {}:{}: {what}\n  client sent {:?} {}\n  trailers {}\n  backend got {:?} {}\n  trailers {}", cfg, peer.ip, peer.port, lossy(&sent.start), show_fields(&sent.headers), show_fields(&sent.trailers), lossy(&got.start), show_fields(&got.headers), show_fields(&got.trailers));
    let sp = sent.start_parts();
    let gp = got.start_parts();
    if gp.len() != 3 || gp[0] != sp[0] || gp[1] != sp[1] {
        fail!("C13/request-line-changed", "{}", ctx("method or target changed"));
    }
    if got.body != sent.body || !got.clean {
        fail!("C13/request-body-changed", "{}", ctx(&format!("body: {} bytes sent, {} received (clean end: {})", sent.body.len(), got.body.len(), got.clean)));
    }
    let c = group(&sent.headers);
    let b = group(&got.headers);
    let conn_named: BTreeSet<String> = elements(get(&c, "connection")).iter().map(|e| lc(e)).filter(|e| !e.is_empty()).collect();
    // the lists a compliant proxy may treat as the client's list of field `n`: as sent, or dropped when `n` is named by Connection
    let cands = |n: &str| -> Vec<Vec<Vec<u8>>> {
        let mut v = vec![get(&c, n).to_vec()];
        if conn_named.contains(n) && !get(&c, n).is_empty() {
            v.push(vec![]);
        }
        v
    };
    let edit = cx.cluster == EDIT_CLUSTER;
    let managed: BTreeSet<&str> = ["x-forwarded-for", "forwarded", "x-real-ip", "x-forwarded-proto", "x-forwarded-port", "x-request-id", "cookie", corr.as_str()].into_iter().collect();

    // ---- end-to-end fields: same values in the same order per name, nothing added
    let names: BTreeSet<&String> = c.keys().chain(b.keys()).collect();
    for n in names {
        let n = n.as_str();
        if managed.contains(n) || ["connection", "keep-alive", "proxy-connection", "transfer-encoding", "content-length"].contains(&n) {
            continue;
        }
        let (have, sent_v) = (get(&b, n), get(&c, n));
        if edit && (n == "x-del-req" || n == "x-del-both") {
            if !have.is_empty() {
                fail!("C13/frontend-edit:request", "{}", ctx(&format!("the frontend deletes {n} from requests, the backend received {}", show(have))));
            }
            continue;
        }
        if edit && (n == "x-edit-req" || n == "x-edit-both") {
            let v = if n == "x-edit-req" { b"req-v".to_vec() } else { b"both-v".to_vec() };
            let appended: Vec<Vec<u8>> = sent_v.iter().cloned().chain([v.clone()]).collect();
            if have != appended.as_slice() && have != [v] {
                fail!("C13/frontend-edit:request", "{}", ctx(&format!("the frontend sets {n}; the backend received {}", show(have))));
            }
            continue;
        }
        if HOP_BASE.contains(&n) || conn_named.contains(n) {
            if have != sent_v && !have.is_empty() {
                fail!("C13/request-field-changed:hop-by-hop", "{}", ctx(&format!("hop-by-hop field {n}: sent {}, received {} (neither intact nor removed)", show(sent_v), show(have))));
            }
            continue;
        }
        if have != sent_v {
            fail!("C13/request-field-changed", "{}", ctx(&format!("end-to-end field {n}: sent {}, backend received {}", show(sent_v), show(have))));
        }
    }
    // ---- cookies
    let sticky_prefix = format!("{}=", cfg.sticky).into_bytes();
    let want_crumbs: Vec<Vec<u8>> = crumbs(get(&c, "cookie")).into_iter().filter(|k| !k.starts_with(&sticky_prefix)).collect();
    let have_crumbs = crumbs(get(&b, "cookie"));
    if have_crumbs.iter().any(|k| k.starts_with(&sticky_prefix)) {
        fail!("C13/sticky-cookie-forwarded", "{}", ctx(&format!("sozu's own sticky cookie {} reached the backend", cfg.sticky)));
    }
    if have_crumbs != want_crumbs {
        fail!("C13/cookie-changed", "{}", ctx(&format!("cookies other than {}: sent {}, received {}", cfg.sticky, show(&want_crumbs), show(&have_crumbs))));
    }
    // ---- X-Forwarded-For: the client's elements, then the peer
    let have = elements(get(&b, "x-forwarded-for"));
    let ok = cands("x-forwarded-for").iter().any(|cv| {
        let want = elements(cv);
        have.len() == want.len() + 1 && have[..want.len()] == want[..] && ip_of(&have[want.len()]).map(|ip| same_ip(ip, peer.ip)).unwrap_or(false)
    });
    if !ok {
        fail!("C13/x-forwarded-for", "{}", ctx(&format!("X-Forwarded-For elements at the backend {} are not the client's {} followed by the peer {}", show(&have), show(&elements(get(&c, "x-forwarded-for"))), peer.ip)));
    }
    // ---- Forwarded: the client's elements, then one element naming the peer
    let have = elements(get(&b, "forwarded"));
    let ok = cands("forwarded").iter().any(|cv| {
        let want = elements(cv);
        if !(have.len() == want.len() + 1 && have[..want.len()] == want[..]) {
            return false;
        }
        let p = forwarded_params(&have[want.len()]);
        let for_ok = p.get("for").and_then(|f| node(f)).map(|(ip, port)| same_ip(ip, peer.ip) && port.map(|p| p == peer.port).unwrap_or(true)).unwrap_or(false);
        let proto_ok = p.get("proto").map(|v| v == cx.proto).unwrap_or(true);
        let by_ok = p.get("by").map(|v| node(v).map(|(ip, port)| peer.public.iter().any(|a| same_ip(a.ip(), ip) && port.map(|p| p == a.port()).unwrap_or(true))).unwrap_or(false)).unwrap_or(true);
        for_ok && proto_ok && by_ok
    });
    if !ok {
        fail!("C13/forwarded", "{}", ctx(&format!("Forwarded elements at the backend {} are not the client's {} followed by one element with for={}:{}, proto={}, by=listener", show(&have), show(&elements(get(&c, "forwarded"))), peer.ip, peer.port, cx.proto)));
    }
    // ---- X-Real-IP
    let have = get(&b, "x-real-ip");
    let is_peer = |v: &[u8]| ip_of(v).map(|ip| same_ip(ip, peer.ip)).unwrap_or(false);
    let ok = cands("x-real-ip").iter().any(|cv| {
        let kept: Vec<Vec<u8>> = if cfg.elide { vec![] } else { cv.clone() };
        if cfg.send { minus_one(have, &kept, is_peer) } else { have == kept.as_slice() }
    });
    if !ok {
        let sig = if cfg.elide && !get(&c, "x-real-ip").is_empty() && have.iter().any(|v| get(&c, "x-real-ip").contains(v) && !is_peer(v)) { "C13/x-real-ip-not-elided" } else { "C13/x-real-ip" };
        fail!(sig, "{}", ctx(&format!("X-Real-IP at the backend {} (elide {}, send {}, client sent {}, peer {})", show(have), cfg.elide, cfg.send, show(get(&c, "x-real-ip")), peer.ip)));
    }
    // ---- X-Forwarded-Proto / -Port
    for (n, want) in [("x-forwarded-proto", vec![cx.proto.as_bytes().to_vec()]), ("x-forwarded-port", peer.public.iter().map(|a| a.port().to_string().into_bytes()).collect::<Vec<_>>())] {
        let have = get(&b, n);
        let ok = cands(n).iter().any(|cv| if cv.is_empty() { have.len() == 1 && want.contains(&have[0]) } else { have == cv.as_slice() });
        if !ok {
            fail!(format!("C13/{n}"), "{}", ctx(&format!("{n} at the backend {}: expected the client's {} or, without one, exactly one of {}", show(have), show(get(&c, n)), show(&want))));
        }
    }
    // ---- trailers: nothing the head rules protect may arrive through the trailer section
    let trailers_b = group(&got.trailers);
    let leaked: Vec<String> = trailers_b.keys().filter(|n| trailer_protected(n, cfg)).map(|n| format!("{n}: {}", show(get(&trailers_b, n)))).collect();
    if !leaked.is_empty() {
        fail!("C13/proxy-metadata-via-trailer", "{}", ctx(&format!("client-supplied trailer fields carrying proxy metadata reached the backend: {leaked:?}")));
    }
    // ---- exactly one request id, exactly one correlation header
    let rid = get(&b, "x-request-id");
    if rid.len() != 1 {
        fail!("C13/duplicate-request-id", "{}", ctx(&format!("{} X-Request-Id fields reached the backend {}, exactly one is required", rid.len(), show(rid))));
    }
    let sent_rid = get(&c, "x-request-id");
    if !sent_rid.contains(&rid[0]) && !is_ulid(&rid[0]) {
        fail!("C13/request-id", "{}", ctx(&format!("the X-Request-Id at the backend {} is neither the client's {} nor a generated ULID", show(rid), show(sent_rid))));
    }
    let cid = get(&b, &corr);
    if cid.len() != 1 {
        fail!("C13/client-correlation-header-forwarded", "{}", ctx(&format!("{} {} fields reached the backend {}, exactly one — sozu's — is required; the client sent {}", cid.len(), cfg.corr, show(cid), show(get(&c, &corr)))));
    }
    if !is_ulid(&cid[0]) {
        fail!("C13/correlation-header", "{}", ctx(&format!("the {} at the backend {} is not a ULID", cfg.corr, show(cid))));
    }
    // ---- trailers
    let tc = group(&sent.trailers);
    let names: BTreeSet<&String> = tc.keys().chain(trailers_b.keys()).collect();
    for n in names {
        let n = n.as_str();
        let (have, sent_v) = (get(&trailers_b, n), get(&tc, n));
        if trailer_protected(n, cfg) {
            continue; // judged above
        }
        // the frontend's delete edits remove "every existing header with the matching name": trailer fields included
        let droppable = managed.contains(n) || HOP_BASE.contains(&n) || conn_named.contains(n) || (edit && (n == "x-del-req" || n == "x-del-both"));
        if have != sent_v && !(droppable && have.is_empty()) {
            fail!("C13/trailer-changed", "{}", ctx(&format!("trailer field {n}: sent {}, backend received {}", show(sent_v), show(have))));
        }
    }
    Ok(())
}

/// what the client received against what the backend sent; `backend_corr`: the correlation id the backend saw
pub(super) fn check_response(cx: &Ctx, req_sent: &RawMsg, plan_sent: &RawMsg, got: &RawMsg, backend_corr: &[u8]) -> Result<(), Failure> {
    let (cfg, i) = (cx.cfg, cx.i);
    let corr = cfg.corr.to_ascii_lowercase();
    let ctx = |what: &str| format!("response {i} on listener {:?} (cluster {}): {what}\n  backend sent {:?} {}\n  client got {:?} {}\n  request cookies {}", cfg, CLUSTERS[cx.cluster].0, lossy(&plan_sent.start), show_fields(&plan_sent.headers), lossy(&got.start), show_fields(&got.headers), show(get(&group(&req_sent.headers), "cookie")));
    if got.status() != plan_sent.status() {
        fail!("C13/response-status", "{}", ctx("status changed"));
    }
    if got.body != plan_sent.body || !got.clean {
        fail!("C13/response-body", "{}", ctx(&format!("body: {} bytes sent, {} received (clean end {})", plan_sent.body.len(), got.body.len(), got.clean)));
    }
    let s = group(&plan_sent.headers);
    let g = group(&got.headers);
    let conn_named: BTreeSet<String> = elements(get(&s, "connection")).iter().map(|e| lc(e)).filter(|e| !e.is_empty()).collect();
    let edit = cx.cluster == EDIT_CLUSTER;
    let sticky = CLUSTERS[cx.cluster].3;
    let names: BTreeSet<&String> = s.keys().chain(g.keys()).collect();
    for n in names {
        let n = n.as_str();
        if ["connection", "keep-alive", "proxy-connection", "transfer-encoding", "content-length"].contains(&n) {
            continue;
        }
        let (have, sent_v) = (get(&g, n), get(&s, n));
        if n == corr {
            if !minus_one(have, sent_v, |v| v == backend_corr) {
                let sig = if minus_one(have, sent_v, is_ulid) { "C13/correlation-id-mismatch" } else { "C13/response-correlation-header" };
                fail!(sig, "{}", ctx(&format!("{}: the client must receive the backend's {} plus exactly one added by sozu carrying the request's id {:?}; it received {}", cfg.corr, show(sent_v), lossy(backend_corr), show(have))));
            }
            continue;
        }
        if n == "set-cookie" {
            let sticky_prefix = format!("{}=", cfg.sticky).into_bytes();
            let sent_sticky: Vec<Vec<u8>> = crumbs(get(&group(&req_sent.headers), "cookie")).into_iter().filter(|k| k.starts_with(&sticky_prefix)).map(|k| k[sticky_prefix.len()..].to_vec()).collect();
            let id = CLUSTERS[cx.cluster].2.as_bytes();
            let added = format!("{}={}; Path=/", cfg.sticky, CLUSTERS[cx.cluster].2).into_bytes();
            let intact = have == sent_v;
            let plus_cookie = minus_one(have, sent_v, |v| v == added.as_slice());
            let ok = if !sticky {
                intact
            } else if sent_sticky.is_empty() || sent_sticky.iter().all(|v| v != id) {
                plus_cookie
            } else if sent_sticky.iter().all(|v| v == id) {
                intact
            } else {
                intact || plus_cookie
            };
            if !ok {
                let sig = if !sticky && cx.sticky_seen && plus_any_sticky(have, sent_v, cfg.sticky) { "C13/sticky-cookie-leaks-across-keepalive" } else { "C13/sticky-set-cookie" };
                fail!(sig, "{}", ctx(&format!("Set-Cookie: backend sent {}, client received {}; sticky cluster: {sticky}, client's sticky cookie values {}, backend id {:?}", show(sent_v), show(have), show(&sent_sticky), CLUSTERS[cx.cluster].2)));
            }
            continue;
        }
        if edit && (n == "x-del-resp" || n == "x-del-both") {
            if !have.is_empty() {
                fail!("C13/frontend-edit:response", "{}", ctx(&format!("the frontend deletes {n} from responses, the client received {}", show(have))));
            }
            continue;
        }
        if edit && (n == "x-edit-resp" || n == "x-edit-both") {
            let v = if n == "x-edit-resp" { b"resp-v".to_vec() } else { b"both-v".to_vec() };
            let appended: Vec<Vec<u8>> = sent_v.iter().cloned().chain([v.clone()]).collect();
            if have != appended.as_slice() && have != [v] {
                fail!("C13/frontend-edit:response", "{}", ctx(&format!("the frontend sets {n}; the client received {}", show(have))));
            }
            continue;
        }
        if HOP_BASE.contains(&n) || conn_named.contains(n) {
            if have != sent_v && !have.is_empty() {
                fail!("C13/response-field-changed:hop-by-hop", "{}", ctx(&format!("hop-by-hop field {n}: sent {}, received {}", show(sent_v), show(have))));
            }
            continue;
        }
        if have != sent_v {
            fail!("C13/response-field-changed", "{}", ctx(&format!("field {n}: backend sent {}, client received {}", show(sent_v), show(have))));
        }
    }
    if !g.contains_key(&corr) {
        fail!("C13/response-correlation-header", "{}", ctx(&format!("no {} in the response", cfg.corr)));
    }
    Ok(())
}


// ------------------------------------------------------------------ scenario

pub(super) fn has_token(values: &[&[u8]], token: &[u8]) -> bool {
    values.iter().any(|v| v.split(|b| *b == b',').any(|e| trim(e).eq_ignore_ascii_case(token)))
}

struct ClientConn {
    w: std::net::TcpStream,
    r: RawConn,
    peer: Peer,
}

fn open(lab: &HdrLab, case: &Case) -> Result<ClientConn, Failure> {
    let laddr = lab.addrs[case.listener as usize % LISTENERS.len()];
    let src_ip = match &case.src {
        Src::Direct { ip } => Ipv4Addr::new(127, ip[0], ip[1], ip[2].max(1)),
        _ => Ipv4Addr::new(127, 0, 0, 1),
    };
    let mut attempt = 0;
    let stream = loop {
        match hdrlab::connect_from(src_ip, laddr) {
            Ok(s) => break s,
            // the harness's own ephemeral ports ran out (TIME_WAIT): not sozu's doing
            Err(e) if matches!(e.kind(), std::io::ErrorKind::AddrInUse | std::io::ErrorKind::AddrNotAvailable) => {
                attempt += 1;
                if attempt > 50 {
                    panic!("harness: no free source port from {src_ip} to {laddr}: {e}");
                }
                std::thread::sleep(Duration::from_millis(100));
            }
            Err(e) => return Err(Failure::new("C13/connect-refused", format!("connect from {src_ip} to the listener {laddr} failed: {e}"))),
        }
    };
    let local = stream.local_addr().expect("local_addr");
    let mut w = stream.try_clone().expect("clone");
    let peer = match &case.src {
        Src::Direct { .. } => Peer { ip: local.ip(), port: local.port(), public: vec![laddr] },
        Src::ProxyV4 { src, sport, dst, dport } => {
            let (s, d) = (SocketAddr::from((*src, *sport)), SocketAddr::from((*dst, *dport)));
            let _ = w.write_all(&hdrlab::proxy_v2(s, d));
            Peer { ip: s.ip(), port: *sport, public: vec![laddr, d] }
        }
        Src::ProxyV6 { src, sport, dst, dport } => {
            let (s, d) = (SocketAddr::from((*src, *sport)), SocketAddr::from((*dst, *dport)));
            let _ = w.write_all(&hdrlab::proxy_v2(s, d));
            Peer { ip: s.ip(), port: *sport, public: vec![laddr, d] }
        }
    };
    Ok(ClientConn { w, r: RawConn::new(stream), peer })
}

const MANAGED_LC: &[&str] = &["x-forwarded-for", "forwarded", "x-real-ip", "x-forwarded-proto", "x-forwarded-port", "x-request-id", "cookie"];

pub fn scenario(lab: &mut HdrLab, case_in: &Case) -> CheckResult {
    let mut rep = CaseReport::default();
    if !lab.worker.alive() {
        return Err(Failure::new("C13/worker-died", format!("the worker thread is gone: {:?}", lab.worker.join())));
    }
    let mut case = case_in.clone();
    let mut excluded = case.excluded;
    if !case.strict {
        excluded = excluded.max(sanitise(&mut case));
    }
    let case = &case;
    let cfg = case.cfg();
    let corr_lc = cfg.corr.to_ascii_lowercase();
    lab.reset();
    let mut conn: Option<ClientConn> = None;
    let mut rejected = 0;
    let mut forwarded = 0;
    let mut reused = 0;
    let mut sticky_seen_on_conn = false;
    let mut seen_ids: Vec<Vec<u8>> = vec![];
    for (i, r) in case.reqs.iter().enumerate() {
        let cluster = r.cluster as usize % CLUSTERS.len();
        // known finding C13/sticky-cookie-leaks-across-keepalive, excluded by construction unless strict: after a
        // request to a sticky cluster the session keeps `sticky_session`, and every later response on the same
        // connection from a cluster that is NOT sticky gets that cluster's Set-Cookie
        // (the sticky-cookie leak across keep-alive requests is repaired: such sequences stay on one connection)
        rep.class_if(conn.is_some() && sticky_seen_on_conn && !CLUSTERS[cluster].3, "non_sticky_after_sticky_on_one_connection");
        if conn.is_none() {
            conn = Some(open(lab, case)?);
            sticky_seen_on_conn = false;
        } else {
            reused += 1;
        }
        sticky_seen_on_conn |= CLUSTERS[cluster].3;
        let c = conn.as_mut().unwrap();
        // ---- what the backend will answer
        let mut resp_fields: Fields = vec![(b"X-Lab-Resp".to_vec(), i.to_string().into_bytes())];
        resp_fields.extend(fields(&r.resp.headers));
        let plan = RespPlan { status: r.resp.status, headers: resp_fields, body: lab::h1::content(0xC13 + i as u64, r.resp.body_len as usize), chunked: r.resp.chunked };
        let plan_msg = RawMsg { start: format!("HTTP/1.1 {} x", plan.status).into_bytes(), headers: plan.headers.clone(), body: if matches!(plan.status, 204 | 304) { vec![] } else { plan.body.clone() }, clean: true, ..Default::default() };
        let mark = {
            let mut g = lab.shared.lock().unwrap();
            g.next = Some(plan);
            g.recorded.len()
        };
        // ---- the request
        let body = lab::h1::content(0xB0D + i as u64, r.body_len as usize);
        let mut req_fields: Fields = vec![(b"Host".to_vec(), CLUSTERS[cluster].1.as_bytes().to_vec()), (b"X-Lab-Req".to_vec(), i.to_string().into_bytes())];
        req_fields.extend(fields(&r.headers));
        let with_body = matches!(r.method.as_str(), "POST" | "PUT" | "PATCH");
        if with_body {
            if r.chunked {
                req_fields.push((b"Transfer-Encoding".to_vec(), b"chunked".to_vec()));
            } else {
                req_fields.push((b"Content-Length".to_vec(), body.len().to_string().into_bytes()));
            }
        }
        let trailers = fields(&r.trailers);
        let wire = hdrlab::build_msg(&format!("{} {} HTTP/1.1", r.method, r.target), &req_fields, if with_body { Some(&body) } else { None }, r.chunked, &trailers);
        let sent = RawMsg { start: format!("{} {} HTTP/1.1", r.method, r.target).into_bytes(), headers: req_fields.clone(), body: if with_body { body.clone() } else { vec![] }, trailers: if with_body && r.chunked { trailers.clone() } else { vec![] }, clean: true, chunked: r.chunked };
        let wrote = match r.split {
            Some(n) if (n as usize) < wire.len() => c.w.write_all(&wire[..n as usize]).and_then(|_| c.w.flush()).and_then(|_| c.w.write_all(&wire[n as usize..])),
            _ => c.w.write_all(&wire),
        };
        let _ = c.w.flush();
        let out = c.r.read_msg(true, Instant::now() + Duration::from_secs(6));
        let resp = match out {
            RawOut::Msg(m) => m,
            other => {
                fail!("C13/no-response", "request {i} (reused connection: {}, wrote: {wrote:?}) {:?} {}: no response: {}", reused > 0, lossy(&sent.start), show_fields(&sent.headers), hdrlab::describe(&other));
            }
        };
        let new: Vec<hdrlab::Recorded> = lab.shared.lock().unwrap().recorded[mark..].to_vec();
        let obs_text = r.headers.iter().any(|(_, v)| v.chars().any(|ch| ch as u32 >= 0x7f));
        let from_backend = resp.values("x-lab-resp").first().map(|v| *v == i.to_string().as_bytes()).unwrap_or(false);
        if !from_backend {
            // sozu answered by itself
            if !new.is_empty() {
                fail!("C13/answered-by-proxy-but-forwarded", "request {i}: sozu answered {:?} itself although {} request(s) reached the backend", lossy(&resp.start), new.len());
            }
            if obs_text && resp.status() == Some(400) {
                rejected += 1;
                conn = None;
                continue;
            }
            fail!("C13/request-rejected", "request {i} {:?} {} trailers {} was answered by sozu with {:?} {} instead of being forwarded", lossy(&sent.start), show_fields(&sent.headers), show_fields(&sent.trailers), lossy(&resp.start), show_fields(&resp.headers));
        }
        if new.len() != 1 {
            fail!("C13/request-count-at-backend", "request {i} reached the backends {} times", new.len());
        }
        if new[0].backend != cluster {
            fail!("C13/wrong-backend", "request {i} for cluster {} reached the backend of cluster {}", CLUSTERS[cluster].0, CLUSTERS[new[0].backend].0);
        }
        forwarded += 1;
        let cx = Ctx { cfg, peer: &c.peer, cluster, i, sticky_seen: sticky_seen_on_conn, proto: "http" };
        check_request(&cx, &sent, &new[0].msg)?;
        let backend_corr = new[0].msg.values(&corr_lc).first().map(|v| v.to_vec()).unwrap_or_default();
        check_response(&cx, &sent, &plan_msg, &resp, &backend_corr)?;
        // observation only (the property does not ask for distinct ids): doc/configure.md says "each request gets a unique ULID"
        if reused > 0 && seen_ids.contains(&backend_corr) {
            rep.class("observed_same_correlation_id_for_two_requests_of_one_connection");
        }
        seen_ids.push(backend_corr.clone());
        // ---- keep the connection?
        let close = has_token(&sent.values("connection"), b"close") || has_token(&resp.values("connection"), b"close") || has_token(&plan_msg.values("connection"), b"close");
        if close {
            conn = None;
        }
    }
    drop(conn);
    let garbage = lab.shared.lock().unwrap().garbage.clone();
    if !garbage.is_empty() {
        fail!("C13/garbage-at-backend", "a backend received bytes that are not an HTTP/1.1 request: {:?}", garbage);
    }

    // ---- measurement
    let mut any_managed = false;
    let mut any_dup = false;
    let mut any_trailer = false;
    for r in &case.reqs {
        let names: Vec<String> = r.headers.iter().map(|(n, _)| n.to_ascii_lowercase()).collect();
        let managed = |n: &str| MANAGED_LC.contains(&n) || n == corr_lc;
        any_managed |= names.iter().any(|n| managed(n));
        any_dup |= names.iter().collect::<BTreeSet<_>>().len() != names.len();
        any_trailer |= !r.trailers.is_empty();
        let has = |n: &str| names.iter().any(|x| x == n);
        rep.class_if(has("x-forwarded-for"), "client_x_forwarded_for");
        rep.class_if(names.iter().filter(|x| *x == "x-forwarded-for").count() >= 2, "client_x_forwarded_for_2+_lines");
        rep.class_if(has("forwarded"), "client_forwarded");
        rep.class_if(has("x-real-ip"), "client_x_real_ip");
        rep.class_if(has("x-real-ip") && cfg.elide, "client_x_real_ip_on_elide_listener");
        rep.class_if(has("x-forwarded-proto") || has("x-forwarded-port"), "client_x_forwarded_proto_or_port");
        rep.class_if(has("x-request-id"), "client_x_request_id");
        rep.class_if(has(&corr_lc), "client_correlation_header");
        rep.class_if(has("cookie"), "client_cookie");
        rep.class_if(names.iter().filter(|x| *x == "cookie").count() >= 2, "cookie_2+_lines");
        rep.class_if(r.headers.iter().any(|(n, v)| n.eq_ignore_ascii_case("cookie") && v.contains(&format!("{}=", cfg.sticky))), "sticky_cookie_sent");
        rep.class_if(has("connection"), "client_connection_header");
        rep.class_if(r.headers.iter().any(|(n, v)| n.eq_ignore_ascii_case("connection") && v.to_ascii_lowercase().contains("x-hop")) && (has("x-hop1") || has("x-hop2")), "connection_named_field_present");
        rep.class_if(r.headers.iter().any(|(n, _)| { let l = n.to_ascii_lowercase(); managed(&l) && *n != l && !MANAGED.iter().any(|m| m == n) && n != cfg.corr && n != "Cookie" }), "managed_name_case_variant");
        rep.class_if(r.headers.iter().any(|(_, v)| v.is_empty()), "empty_value");
        rep.class_if(r.headers.iter().any(|(_, v)| v.len() >= 150), "long_value");
        rep.class_if(r.trailers.iter().any(|(n, _)| managed(&n.to_ascii_lowercase())), "managed_name_in_trailer");
        rep.class_if(r.cluster as usize == EDIT_CLUSTER, "frontend_edits");
        rep.class_if(r.cluster as usize == EDIT_CLUSTER && (has("x-del-req") || has("x-del-both") || has("x-edit-req") || has("x-edit-both")), "frontend_edit_name_sent_by_client");
        rep.class_if(CLUSTERS[r.cluster as usize % 3].3, "sticky_cluster");
        rep.class_if(r.resp.headers.iter().any(|(n, _)| n.eq_ignore_ascii_case("set-cookie")), "response_set_cookie");
        rep.class_if(r.resp.headers.iter().any(|(n, _)| n.eq_ignore_ascii_case(cfg.corr)), "response_correlation_name_from_backend");
        let rn: Vec<String> = r.resp.headers.iter().map(|(n, _)| n.to_ascii_lowercase()).collect();
        rep.class_if(rn.iter().collect::<BTreeSet<_>>().len() != rn.len(), "response_duplicate_names");
        rep.class_if(r.split.is_some(), "request_written_in_two_pieces");
    }
    rep.class("h1->h1");
    rep.class(format!("listener_{}", case.listener));
    rep.class_if(cfg.elide, "elide_listener");
    rep.class_if(cfg.send, "send_listener");
    rep.class_if(cfg.corr != hdrlab::CORR_DEFAULT, "custom_correlation_name");
    rep.class_if(matches!(case.src, Src::ProxyV4 { .. }), "proxy_v2_ipv4_source");
    rep.class_if(matches!(case.src, Src::ProxyV6 { .. }), "proxy_v2_ipv6_source");
    rep.class_if(any_dup, "duplicate_names");
    rep.class_if(any_trailer, "trailers");
    rep.class_if(any_managed, "managed_name_in_request");
    rep.class_if(rejected > 0, "obs_text_rejected_400");
    rep.class_if(reused > 0, "keep_alive_reuse");
    rep.class_if(case.strict, "strict");
    let uniq: BTreeSet<String> = rep.classes.drain(..).collect();
    rep.classes = uniq.into_iter().collect();
    rep.nontrivial = forwarded > 0 && (any_managed || any_dup || any_trailer);
    rep.inner_evaluations = forwarded;
    rep.excluded_known = excluded as u64;
    Ok(rep)
}

// ------------------------------------------------------------------ runner

const SUB: &str = "h1h1";
const RULE: &str = "one scenario = 1..3 HTTP/1.1 requests (keep-alive when neither side said close) through one of five plain-HTTP listeners of a live worker (default; elide_x_real_ip+send_x_real_ip; send only; elide + custom sozu_id_header X-Edge-Trace + custom sticky_name; expect_proxy+elide+send with a hand-built PROXY-v2 header, IPv4 or IPv6 source incl. ::1, v4-mapped, 0.0.0.0, 255.255.255.255) from a generated 127.a.b.c source address, to one of three clusters by Host (plain; sticky_session; a frontend with request/response/both header edits, set and delete). Request head: 0..11 fields drawn from proxy-managed names (X-Forwarded-For/-Proto/-Port/-Host, Forwarded, X-Real-IP, X-Request-Id, Sozu-Id, X-Edge-Trace), Cookie lines with 1..4 crumbs (the listener's sticky name with the valid backend id or a bogus one, the other listener's sticky name, case variants of it), Connection with close/keep-alive/upgrade/named fields (X-Hop1/2, X-Real-IP, X-Forwarded-For) + those fields, Keep-Alive, TE, Upgrade, Proxy-Connection, end-to-end names incl. the frontend's edit names; values typical for the name or generic (empty, tokens, printable ASCII, 150..1800 bytes, obs-text, inner tab, comma lists, quoted commas); random case variants of names; up to 2 extra duplicates; methods GET/POST/PUT/DELETE/PATCH/OPTIONS, origin- and absolute-form targets; Content-Length or chunked bodies, chunked ones with 0..3 trailer fields of the same names; head optionally written in two pieces. Backend response: status 200/201/404/500/302/204/304, 0..8 fields (Set-Cookie incl. the sticky name, Connection, the correlation name, the frontend's edit names, duplicates, empty values), Content-Length or chunked. Oracle, byte-exact on both sides (own strict reader, values compared after OWS trimming, names case-insensitively): method, target and body equal; for every name outside the proxy-managed set the backend's value sequence equals the client's (hop-by-hop fields and fields named by Connection: intact or removed; Connection/Keep-Alive/Proxy-Connection/framing fields not judged); cookie crumbs equal minus crumbs named exactly like the sticky cookie, which must be absent; X-Forwarded-For elements = client's elements + the peer (socket source or PROXY source, compared as addresses); Forwarded elements = client's + one element whose for= is the peer ip[:port], proto http, by the listener (or PROXY destination); X-Real-IP = client's (none under elide) + the peer under send; X-Forwarded-Proto/-Port = client's or, without one, exactly http / the listener's (or PROXY destination) port; exactly one X-Request-Id (the client's or a ULID) and exactly one correlation header (a ULID); no trailer field named like protected metadata reaches the backend, other trailers intact; frontend edits as documented (delete removes, set appends or replaces). Response: status and body equal; per name the client's sequence equals the backend's, plus exactly one correlation header carrying the id the backend saw, plus `<sticky>=<backend id>; Path=/` exactly when the cluster is sticky and the request carried no valid sticky cookie (both admitted when valid and invalid ones were mixed), plus the frontend's response edits. A request with obs-text may instead be refused with 400 and nothing forwarded (kawa's strict parser); any other request must be forwarded. A failure is re-run twice on a fresh worker and reported only when it reproduces. Non-trivial: at least one request was forwarded and the scenario has a proxy-managed name, a duplicate name or a trailer; distinct by case hash.";

fn child(args: &Args, total: u64) -> Stats {
    lab::init_ports(args.shard.map(|s| s.0).unwrap_or(0));
    let labcell: RefCell<Option<HdrLab>> = RefCell::new(None);
    let flaky = std::cell::Cell::new(0u64);
    let run_on = |fresh: bool, case: &Case| -> CheckResult {
        let mut lab = match (fresh, labcell.borrow_mut().take()) {
            (false, Some(l)) => l,
            (_, old) => {
                drop(old);
                HdrLab::new("c13", LabConfig::default())
            }
        };
        let r = scenario(&mut lab, case);
        *labcell.borrow_mut() = if r.is_ok() { Some(lab) } else { None };
        r
    };
    let check = |case: &Case| -> CheckResult {
        let first = run_on(false, case);
        let Err(f) = first else { return first };
        for _ in 0..2 {
            if let Err(f2) = run_on(true, case) {
                return Err(if f2.signature == f.signature { f2 } else { f });
            }
        }
        flaky.set(flaky.get() + 1);
        let mut rep = CaseReport::default();
        rep.class("flaky_unconfirmed");
        Ok(rep)
    };
    let mut st = engine::run_lab_shard(args, "C13", SUB, total, strategy(), check, 60);
    st.flaky_unconfirmed += flaky.get();
    st
}

pub fn run(args: &Args) -> i32 {
    if args.shard.is_some() {
        let st = if args.only.as_deref() == Some(super::c13_h2::SUB) { super::c13_h2::child(args, args.cases(super::c13_h2::QUICK, super::c13_h2::THOROUGH)) } else { child(args, args.cases(60_000, 1_500_000)) };
        return engine::shard::child_finish(args, &st);
    }
    let mut ev = Evidence::new(args, "exploration");
    ev.rule(SUB, RULE);
    ev.assume("h1h1 scope: HTTP/1.1 client -> HTTP/1.1 backend over plain HTTP listeners only; HTTP/2 on either side, H2<->H1 conversion (connection-specific fields never crossing into HTTP/2) and X-Forwarded-Proto https over a TLS listener are the subject of sub-check h2paths (props/c13_h2.rs); HSTS is not exercised");
    ev.assume("direct peers are IPv4 loopback addresses 127.a.b.c (the lab listens on 127.0.0.1); IPv6 and arbitrary IPv4 peers are exercised through PROXY-v2 headers only");
    ev.assume("a single client X-Request-Id is documented to be propagated (doc/configure.md, Request-ID propagation) and is admitted; hop-by-hop request/response fields may pass or be removed (the property is silent); Connection itself is not judged");
    ev.assume("client Forwarded values are generated with balanced double quotes; cookie crumbs follow RFC 6265 name=value (no nameless crumbs, no trailing semicolons, no empty Cookie line); framing fields (Host, Content-Length, Transfer-Encoding, Expect) are written by the harness, one each; trailers and responses carry no obs-text");
    ev.assume("one known shape is excluded by construction and counted in excluded_known (fields removed): trailer fields named like protected metadata (correlation name, X-Request-Id, X-Forwarded-For, Forwarded, X-Real-IP under elide); the committed strict reproducers under regressions/C13 play it");
    for (class, frac) in [
        ("client_x_forwarded_for", 0.15),
        ("client_x_forwarded_for_2+_lines", 0.02),
        ("client_forwarded", 0.15),
        ("client_x_real_ip", 0.15),
        ("client_x_real_ip_on_elide_listener", 0.08),
        ("client_x_forwarded_proto_or_port", 0.15),
        ("client_x_request_id", 0.08),
        ("managed_name_case_variant", 0.15),
        ("duplicate_names", 0.3),
        ("trailers", 0.1),
        ("managed_name_in_trailer", 0.03),
        ("cookie_2+_lines", 0.05),
        ("sticky_cookie_sent", 0.1),
        ("sticky_cluster", 0.3),
        ("frontend_edits", 0.3),
        ("frontend_edit_name_sent_by_client", 0.05),
        ("connection_named_field_present", 0.01),
        ("proxy_v2_ipv4_source", 0.05),
        ("proxy_v2_ipv6_source", 0.05),
        ("custom_correlation_name", 0.1),
        ("elide_listener", 0.3),
        ("send_listener", 0.3),
        ("response_set_cookie", 0.2),
        ("response_duplicate_names", 0.2),
        ("response_correlation_name_from_backend", 0.05),
        ("keep_alive_reuse", 0.2),
        ("empty_value", 0.2),
        ("long_value", 0.05),
    ] {
        ev.floor(SUB, class, frac);
    }
    engine::shard::run_sharded(&mut ev, args, SUB, 16, Duration::from_secs(args.tier.pick(900, 5400)));
    super::c13_h2::describe(&mut ev);
    engine::shard::run_sharded(&mut ev, args, super::c13_h2::SUB, 16, Duration::from_secs(args.tier.pick(900, 5400)));
    ev.finish()
}
