//! C14 — sozu respects every HTTP/2 peer limit and keeps transfers moving (DESIGN §4 C14).
//! The scenario and its ledger live in `props/h2flow.rs` / `lab/h2.rs`.

use std::time::Duration;

use crate::engine::{self, Args, Evidence};

const SUB: &str = "flow";

pub fn run(args: &Args) -> i32 {
    if args.shard.is_some() {
        let st = super::h2flow::child(args, "C14", SUB, args.cases(500, 10_000), true);
        return engine::shard::child_finish(args, &st);
    }
    let mut ev = Evidence::new(args, "exploration");
    ev.rule(
        SUB,
        "one HTTP/2 (TLS, ALPN h2) client connection through a live worker with 1..4 concurrent POST streams (bodies up to 120 KB each way, generated DATA frame sizes and padding) to an HTTP/1.1 or an h2c mock backend. Both accounting peers - the client for response bodies, the h2c backend for request bodies - advertise generated SETTINGS (INITIAL_WINDOW_SIZE 0..2^31-1 biased to 0/1/9/16383/16384/65535, MAX_FRAME_SIZE 16384..2^24-1, MAX_CONCURRENT_STREAMS 1..8, header table size 0/4096/65536), follow a generated WINDOW_UPDATE schedule (1-byte drips, bursts, stream-only, connection-only) before switching to replenish-on-consumption, and may change INITIAL_WINDOW_SIZE / MAX_FRAME_SIZE mid-connection. Ledger on every frame sozu sends: DATA within the stream and connection credit granted (padding included, SETTINGS deltas per RFC 9113 6.9.2), frame length <= advertised MAX_FRAME_SIZE, concurrently open streams toward the backend <= MAX_CONCURRENT_STREAMS, odd strictly increasing stream ids, header blocks decodable. Progress: every stream completes with its exact bodies within the deadline once the schedule has granted enough credit. A failure is re-run on a fresh worker and reported only when it reproduces. Non-trivial: a schedule or window forcing a zero-window wait and a body larger than the initial window.",
    );
    ev.assume("kernel and TLS record schedules are shaped, not owned; liveness is checked against a 12 s deadline");
    ev.assume("MAX_CONCURRENT_STREAMS 0 is not advertised by the backend (every request would wait forever by design)");
    ev.floor(SUB, "zero_window_wait_and_body_over_initial_window", 0.15);
    engine::shard::run_sharded(&mut ev, args, SUB, 16, Duration::from_secs(args.tier.pick(900, 5400)));
    ev.finish()
}
