//! `vp` — property-based verification harness for sozu (see /verif/DESIGN.md).
//!
//! usage: vp <ID> [--tier quick|thorough] [--seed N] [--replay FILE] [--only SUB] [--scale F]

#[macro_use]
pub mod engine;
pub mod gens;
pub mod lab;
pub mod model;
pub mod props;

fn main() {
    let argv: Vec<String> = std::env::args().skip(1).collect();
    let args = match engine::Args::parse(&argv) {
        Ok(a) => a,
        Err(e) => {
            eprintln!("{e}");
            std::process::exit(2);
        }
    };
    engine::install_panic_hook();
    // many checks hold hundreds of descriptors per thread (listener hand-off, wire lab)
    unsafe {
        let mut lim: libc::rlimit = std::mem::zeroed();
        if libc::getrlimit(libc::RLIMIT_NOFILE, &mut lim) == 0 {
            lim.rlim_cur = lim.rlim_max.min(1 << 20);
            libc::setrlimit(libc::RLIMIT_NOFILE, &lim);
        }
    }
    let code = match std::panic::catch_unwind(|| props::dispatch(&args)) {
        Ok(c) => c,
        Err(_) => {
            let (loc, msg) = engine::take_last_panic().unwrap_or_default();
            println!("INCONCLUSIVE: harness panic at {loc}: {msg}");
            2
        }
    };
    std::process::exit(code);
}
