//! shared generators
