//! shared generators
pub mod certs;
pub mod cmd;
