// generated from fixtures/certs/manifest.json by tools (do not edit)
pub const BANK: &[Fixture] = &[
    fx!("c01", &["a.x.com"], 1821900492, "35e2c41a62603602e8a44058e1681019b30209ed929ba57f33d0649b38a9111a"),
    fx!("c02", &["a.x.com"], 1853436492, "8e0d53636358242f85b4b6df4b17f5977ab694d5dddd5172449fb5bc10827926"),
    fx!("c03", &["*.x.com"], 1821900492, "913a932317598da55f351258f0c44527181601f603a12a0a4bb2cc4f16046dff"),
    fx!("c04", &["a.x.com", "b.x.com"], 1824924492, "3e7fbaf5805218a9dee03fc250e9a70129fa816e4b349f9edbd9dcc937ea58e9"),
    fx!("c05", &["*.b.x.com", "x.com"], 1833564492, "19fcb180073308a428df905f5fa0da3e23729fae6e9aa2c9282a4b8c13a5ab03"),
    fx!("c06", &["c.x.com"], 1821900492, "3e866a1ff88d96bd3947cb3fa94a42f0bb2eab5f5d57793ced47009541c179c6"),
    fx!("c07", &["A.X.NET"], 1821900492, "eb5a8e7989c8d0c8ffff4625c49a403c11df7a0aadba8faaf1a6b6601b197a18"),
    fx!("c08", &["b.x.com"], 1792956492, "2100927035daf72367d93c67dc09b020c8fea931a87821258dd9c915293b2bd5"),
    fx!("c09", &["b.x.com"], 1868124492, "f7fb66928e1d68c2794ac489a17519e94a0a038c26de3f4277e34c382fbf5a7e"),
    fx!("c10", &["default.test", "localhost"], 2105724492, "e553e935a351bb4132eda612efed6605f1c16fdd94d9c1e8b141f9b44f2af484"),
    fx!("c11", &["*.x.com"], 1859484492, "b83beff6af09329436f497d313b97a0111100c89865ffb34903fac68a1587b78"),
    fx!("c12", &["z.b.x.com", "*.b.x.com"], 1821900492, "fbc38dc3a86948f5c22dc5eabd09d5ed5833a6346edd1c16c6b22ac94e0c16f3"),
];
