//! G-cmd: generator of configuration command histories over small pools, so that
//! histories collide meaningfully (DESIGN §3). Every mutating verb of
//! `ConfigState::dispatch` has a generator; arguments are drawn from pools that
//! contain valid and invalid values (unknown targets, duplicates, a bad field among good ones).

use std::collections::BTreeMap;

use proptest::prelude::*;
use sozu_command_lib::proto::command::{
    ActivateListener, AddBackend, AddCertificate, AlpnProtocols, CertificateAndKey, Cluster,
    CustomHttpAnswers, DeactivateListener, HealthCheckConfig, HstsConfig, HttpListenerConfig,
    HttpsListenerConfig, ListenerType, LoadBalancingAlgorithms, LoadBalancingParams, LoadMetric,
    PathRule, PathRuleKind, ProxyProtocolConfig, RemoveBackend, RemoveCertificate, RemoveListener,
    ReplaceCertificate, Request, RequestHttpFrontend, RequestTcpFrontend, RequestUdpFrontend,
    RulePosition, SetHealthCheck, SocketAddress, TcpListenerConfig, TlsVersion, UdpAffinityKey,
    UdpClusterConfig, UdpListenerConfig, UpdateHttpListenerConfig, UpdateHttpsListenerConfig,
    UpdateTcpListenerConfig, UpdateUdpListenerConfig, request::RequestType,
};

use super::certs;
use crate::engine::pick_idx;

pub const CLUSTERS: &[&str] = &["c0", "c1", "c2", "c3"];
pub const BACKEND_IDS: &[&str] = &["b0", "b1", "b2"];
pub const BACKEND_ADDRS: &[&str] = &[
    "10.0.0.1:8080",
    "10.0.0.2:8080",
    "[::1]:9000",
    "[2001:db8::5]:443",
];
pub const LISTENER_ADDRS: &[&str] = &[
    "127.0.0.1:80",
    "127.0.0.1:443",
    "0.0.0.0:8080",
    "[::1]:8443",
    "[::]:80",
    "10.1.1.1:5353",
];
pub const HOSTS: &[&str] = &[
    "a.x.com",
    "b.x.com",
    "*.x.com",
    "/[ab]+/.x.com",
    "x.com",
    "A.x.com",
];
pub const PATHS: &[(i32, &str)] = &[
    (0, ""),
    (0, "/"),
    (0, "/api"),
    (1, "/a.*"),
    (2, "/a"),
    (2, "/api"),
    // an empty value is only the *default* rule for the PREFIX kind: encodings that omit default fields
    // must still carry an empty REGEX / EQUALS rule
    (1, ""),
    (2, ""),
];

pub fn sa(s: &str) -> SocketAddress {
    SocketAddress::from(s.parse::<std::net::SocketAddr>().unwrap())
}

fn pick(x: u32, pool: &[&'static str]) -> &'static str {
    pool[pick_idx(x, pool.len())]
}

fn opt<T: std::fmt::Debug + Clone + 'static>(s: impl Strategy<Value = T> + 'static) -> BoxedStrategy<Option<T>> {
    prop_oneof![2 => Just(None), 1 => s.prop_map(Some)].boxed()
}

fn tags() -> impl Strategy<Value = BTreeMap<String, String>> {
    prop_oneof![
        3 => Just(BTreeMap::new()),
        1 => Just(BTreeMap::from([("owner".to_string(), "x".to_string())])),
        1 => Just(BTreeMap::from([("owner".to_string(), "y".to_string()), ("env".to_string(), "p".to_string())])),
    ]
}

pub fn health_check(valid_bias: u32) -> impl Strategy<Value = HealthCheckConfig> {
    (
        prop_oneof![
            valid_bias => Just("/health".to_string()),
            1 => Just("/".to_string()),
            1 => Just("health".to_string()),          // invalid: no leading slash
            1 => Just("/he\r\nalth".to_string()),     // invalid: CRLF
        ],
        prop_oneof![valid_bias => 1u32..30, 1 => Just(0u32)],
        1u32..10,
        prop_oneof![valid_bias => 1u32..5, 1 => Just(0u32)],
        prop_oneof![valid_bias => 1u32..5, 1 => Just(0u32)],
        prop_oneof![3 => Just(0u32), 1 => Just(200u32), 1 => Just(999u32)],
    )
        .prop_map(|(uri, interval, timeout, h, u, status)| HealthCheckConfig {
            uri,
            interval,
            timeout,
            healthy_threshold: h,
            unhealthy_threshold: u,
            expected_status: status,
        })
}

pub fn cluster() -> impl Strategy<Value = Cluster> {
    (
        any::<u32>(),
        any::<bool>(),
        any::<bool>(),
        opt(prop_oneof![Just(0i32), Just(1), Just(2)]),
        0i32..6,
        opt(Just("<h1>503</h1>".to_string())),
        opt(0i32..3),
        opt(any::<bool>()),
        opt(prop_oneof![Just(0u64), Just(1), Just(50)]),
        (opt(1u32..600), opt(health_check(6)), opt(udp_cluster()), opt(Just(8443u32))),
    )
        .prop_map(
            |(c, sticky, redirect, pp, lb, a503, metric, h2, mcpi, (retry, hc, udp, port))| Cluster {
                cluster_id: pick(c, CLUSTERS).to_string(),
                sticky_session: sticky,
                https_redirect: redirect,
                proxy_protocol: pp,
                load_balancing: lb,
                answer_503: a503,
                load_metric: metric,
                http2: h2,
                answers: BTreeMap::new(),
                https_redirect_port: port,
                authorized_hashes: vec![],
                www_authenticate: None,
                max_connections_per_ip: mcpi,
                retry_after: retry,
                health_check: hc,
                udp,
            },
        )
}

fn udp_cluster() -> impl Strategy<Value = UdpClusterConfig> {
    (
        opt(0i32..2),
        opt(0u32..4),
        opt(0u32..4),
        opt(any::<bool>()),
        opt(any::<bool>()),
    )
        .prop_map(|(k, resp, req, pp, every)| UdpClusterConfig {
            affinity_key: k,
            responses: resp,
            requests: req,
            send_proxy_protocol: pp,
            proxy_protocol_every_datagram: every,
            health: None,
        })
}

fn answers() -> impl Strategy<Value = CustomHttpAnswers> {
    (opt(Just("HTTP/1.1 404 Not Found\r\n\r\n".to_string())), opt(Just("HTTP/1.1 503 Service Unavailable\r\n\r\n".to_string()))).prop_map(
        |(a404, a503)| CustomHttpAnswers {
            answer_404: a404,
            answer_503: a503,
            ..Default::default()
        },
    )
}

fn hsts() -> impl Strategy<Value = HstsConfig> {
    (opt(any::<bool>()), opt(prop_oneof![Just(0u32), Just(31536000u32)]), opt(any::<bool>())).prop_map(
        |(enabled, max_age, sub)| HstsConfig {
            enabled,
            max_age,
            include_subdomains: sub,
            preload: None,
            force_replace_backend: None,
        },
    )
}

/// values for the >= 1 flood knobs: mostly valid, sometimes zero (invalid)
fn knob(valid_bias: u32) -> BoxedStrategy<Option<u32>> {
    prop_oneof![
        4 => Just(None),
        valid_bias => (1u32..1000).prop_map(Some),
        1 => Just(Some(0u32)),
    ]
    .boxed()
}

fn sozu_id_header(valid_bias: u32) -> BoxedStrategy<Option<String>> {
    prop_oneof![
        4 => Just(None),
        valid_bias => Just(Some("X-Trace".to_string())),
        valid_bias => Just(Some("sozu-id".to_string())),
        1 => Just(Some("bad header".to_string())),
        1 => Just(Some(String::new())),
        1 => Just(Some("x:y".to_string())),
    ]
    .boxed()
}

pub fn http_listener() -> impl Strategy<Value = HttpListenerConfig> {
    (
        any::<u32>(),
        opt(any::<u32>()),
        any::<bool>(),
        prop_oneof![Just("SOZUBALANCEID".to_string()), Just("sticky".to_string())],
        (1u32..120, 1u32..60, 1u32..10, 1u32..30),
        any::<bool>(),
        opt(answers()),
        (knob(8), knob(8), opt(1u32..200), opt(2u32..8)),
        (sozu_id_header(8), opt(any::<bool>()), opt(any::<bool>())),
    )
        .prop_map(
            |(a, pa, ep, sticky, (ft, bt, ct, rt), active, ans, (k1, k2, mcs, shrink), (sid, elide, send))| {
                HttpListenerConfig {
                    address: sa(pick(a, LISTENER_ADDRS)),
                    public_address: pa.map(|x| sa(pick(x, LISTENER_ADDRS))),
                    expect_proxy: ep,
                    sticky_name: sticky,
                    front_timeout: ft,
                    back_timeout: bt,
                    connect_timeout: ct,
                    request_timeout: rt,
                    active,
                    http_answers: ans,
                    h2_max_rst_stream_per_window: k1,
                    h2_max_ping_per_window: k2,
                    h2_max_concurrent_streams: mcs,
                    h2_stream_shrink_ratio: shrink,
                    sozu_id_header: sid,
                    elide_x_real_ip: elide,
                    send_x_real_ip: send,
                    ..Default::default()
                }
            },
        )
}

pub fn https_listener() -> impl Strategy<Value = HttpsListenerConfig> {
    (
        any::<u32>(),
        opt(any::<u32>()),
        any::<bool>(),
        (1u32..120, 1u32..60, 1u32..10, 1u32..30),
        any::<bool>(),
        prop_oneof![Just(vec![]), Just(vec![TlsVersion::TlsV12 as i32, TlsVersion::TlsV13 as i32])],
        prop_oneof![Just(vec![]), Just(vec!["h2".to_string(), "http/1.1".to_string()]), Just(vec!["http/1.1".to_string()])],
        (opt(any::<bool>()), opt(any::<bool>()), opt(hsts()), opt(answers())),
        (knob(8), opt(1u32..200), sozu_id_header(8), 0u64..4),
        opt(0usize..3),
    )
        .prop_map(
            |(a, pa, ep, (ft, bt, ct, rt), active, versions, alpn, (strict, no11, hsts, ans), (k1, mcs, sid, tickets), default_cert)| {
                let fx = default_cert.map(|i| &certs::BANK[9 - i.min(9)]);
                HttpsListenerConfig {
                    address: sa(pick(a, LISTENER_ADDRS)),
                    public_address: pa.map(|x| sa(pick(x, LISTENER_ADDRS))),
                    expect_proxy: ep,
                    sticky_name: "SOZUBALANCEID".to_string(),
                    front_timeout: ft,
                    back_timeout: bt,
                    connect_timeout: ct,
                    request_timeout: rt,
                    active,
                    versions,
                    alpn_protocols: alpn,
                    strict_sni_binding: strict,
                    disable_http11: no11,
                    hsts,
                    http_answers: ans,
                    h2_max_rst_stream_per_window: k1,
                    h2_max_concurrent_streams: mcs,
                    sozu_id_header: sid,
                    send_tls13_tickets: tickets,
                    certificate: fx.map(|f| f.pem.to_string()),
                    key: fx.map(|f| f.key.to_string()),
                    ..Default::default()
                }
            },
        )
}

pub fn tcp_listener() -> impl Strategy<Value = TcpListenerConfig> {
    (any::<u32>(), opt(any::<u32>()), any::<bool>(), (1u32..120, 1u32..60, 1u32..10), any::<bool>()).prop_map(
        |(a, pa, ep, (ft, bt, ct), active)| TcpListenerConfig {
            address: sa(pick(a, LISTENER_ADDRS)),
            public_address: pa.map(|x| sa(pick(x, LISTENER_ADDRS))),
            expect_proxy: ep,
            front_timeout: ft,
            back_timeout: bt,
            connect_timeout: ct,
            active,
        },
    )
}

pub fn udp_listener() -> impl Strategy<Value = UdpListenerConfig> {
    (any::<u32>(), opt(any::<u32>()), (1u32..120, 1u32..60), prop_oneof![Just(1500u32), Just(512u32)], prop_oneof![Just(0u32), Just(8u32)], any::<bool>()).prop_map(
        |(a, pa, (ft, bt), rx, flows, active)| UdpListenerConfig {
            address: sa(pick(a, LISTENER_ADDRS)),
            public_address: pa.map(|x| sa(pick(x, LISTENER_ADDRS))),
            front_timeout: ft,
            back_timeout: bt,
            max_rx_datagram_size: rx,
            max_flows: flows,
            active,
        },
    )
}

pub fn http_frontend() -> impl Strategy<Value = RequestHttpFrontend> {
    (
        prop_oneof![5 => any::<u32>().prop_map(|c| Some(pick(c, CLUSTERS).to_string())), 1 => Just(None)],
        any::<u32>(),
        any::<u32>(),
        any::<u32>(),
        opt(prop_oneof![Just("GET".to_string()), Just("POST".to_string())]),
        prop_oneof![1 => Just(0i32), 1 => Just(1i32), 5 => Just(2i32), 1 => Just(7i32)],
        tags(),
        (opt(0i32..4), opt(any::<bool>()), opt(0i32..3), opt(Just("example.org".to_string())), opt(hsts())),
    )
        .prop_map(|(cluster_id, a, h, p, method, position, tags, (redirect, auth, scheme, rh, hsts))| {
            let (kind, value) = PATHS[pick_idx(p, PATHS.len())];
            RequestHttpFrontend {
                cluster_id,
                address: sa(pick(a, LISTENER_ADDRS)),
                hostname: pick(h, HOSTS).to_string(),
                path: PathRule { kind, value: value.to_string() },
                method,
                position,
                tags,
                redirect,
                required_auth: auth,
                redirect_scheme: scheme,
                redirect_template: None,
                rewrite_host: rh,
                rewrite_path: None,
                rewrite_port: None,
                headers: vec![],
                hsts,
            }
        })
}

pub fn tcp_frontend() -> impl Strategy<Value = RequestTcpFrontend> {
    (any::<u32>(), any::<u32>(), tags()).prop_map(|(c, a, tags)| RequestTcpFrontend {
        cluster_id: pick(c, CLUSTERS).to_string(),
        address: sa(pick(a, LISTENER_ADDRS)),
        tags,
    })
}

pub fn udp_frontend() -> impl Strategy<Value = RequestUdpFrontend> {
    (any::<u32>(), any::<u32>(), tags()).prop_map(|(c, a, tags)| RequestUdpFrontend {
        cluster_id: pick(c, CLUSTERS).to_string(),
        address: sa(pick(a, LISTENER_ADDRS)),
        tags,
    })
}

pub fn add_backend() -> impl Strategy<Value = AddBackend> {
    (any::<u32>(), any::<u32>(), any::<u32>(), opt(Just("s1".to_string())), opt(0i32..200), opt(any::<bool>())).prop_map(
        |(c, b, a, sticky, weight, backup)| AddBackend {
            cluster_id: pick(c, CLUSTERS).to_string(),
            backend_id: pick(b, BACKEND_IDS).to_string(),
            address: sa(pick(a, BACKEND_ADDRS)),
            sticky_id: sticky,
            load_balancing_parameters: weight.map(|weight| LoadBalancingParams { weight }),
            backup,
        },
    )
}

pub fn remove_backend() -> impl Strategy<Value = RemoveBackend> {
    (any::<u32>(), any::<u32>(), any::<u32>()).prop_map(|(c, b, a)| RemoveBackend {
        cluster_id: pick(c, CLUSTERS).to_string(),
        backend_id: pick(b, BACKEND_IDS).to_string(),
        address: sa(pick(a, BACKEND_ADDRS)),
    })
}

/// certificate payload: a fixture (valid), optionally with overriding names, or a broken PEM
pub fn certificate(valid_bias: u32) -> impl Strategy<Value = CertificateAndKey> {
    (
        prop_oneof![
            valid_bias => (0usize..certs::BANK.len()).prop_map(|i| (certs::BANK[i].pem.to_string(), certs::BANK[i].key.to_string())),
            1 => Just((certs::BAD_NOTDER.to_string(), certs::BANK[0].key.to_string())),
            1 => Just((certs::BAD_TRUNCATED.to_string(), certs::BANK[0].key.to_string())),
        ],
        prop_oneof![
            4 => Just(vec![]),
            1 => Just(vec!["override.x.com".to_string()]),
            1 => Just(vec!["a.x.com".to_string(), "*.y.com".to_string()]),
        ],
        prop_oneof![3 => Just(vec![]), 1 => Just(vec![TlsVersion::TlsV13 as i32])],
    )
        .prop_map(|((certificate, key), names, versions)| CertificateAndKey {
            certificate,
            certificate_chain: vec![],
            key,
            versions,
            names,
        })
}

fn fingerprint(valid_bias: u32) -> impl Strategy<Value = String> {
    prop_oneof![
        valid_bias => (0usize..certs::BANK.len()).prop_map(|i| certs::BANK[i].fingerprint.to_string()),
        1 => Just("abc".to_string()),                       // odd-length hex
        1 => Just("zz".to_string()),                        // not hex
        1 => Just("00".repeat(32)),                         // unknown
    ]
}

fn listener_type(valid_bias: u32) -> impl Strategy<Value = i32> {
    prop_oneof![valid_bias => 0i32..4, 1 => Just(9i32)]
}

pub fn update_http_listener() -> impl Strategy<Value = UpdateHttpListenerConfig> {
    (
        any::<u32>(),
        opt(any::<u32>()),
        opt(any::<bool>()),
        (opt(1u32..120), opt(1u32..60), opt(1u32..10), opt(1u32..30)),
        opt(answers()),
        (knob(6), knob(6), knob(6), prop_oneof![4 => Just(None), 3 => (2u32..8).prop_map(Some), 1 => Just(Some(1u32))]),
        sozu_id_header(4),
        (opt(any::<bool>()), opt(any::<bool>()), opt(Just("st".to_string()))),
    )
        .prop_map(|(a, pa, ep, (ft, bt, ct, rt), ans, (k1, k2, k3, shrink), sid, (elide, send, sticky))| UpdateHttpListenerConfig {
            address: sa(pick(a, LISTENER_ADDRS)),
            public_address: pa.map(|x| sa(pick(x, LISTENER_ADDRS))),
            expect_proxy: ep,
            sticky_name: sticky,
            front_timeout: ft,
            back_timeout: bt,
            connect_timeout: ct,
            request_timeout: rt,
            http_answers: ans,
            h2_max_rst_stream_per_window: k1,
            h2_max_ping_per_window: k2,
            h2_max_glitch_count: k3,
            h2_stream_shrink_ratio: shrink,
            sozu_id_header: sid,
            elide_x_real_ip: elide,
            send_x_real_ip: send,
            ..Default::default()
        })
}

pub fn update_https_listener() -> impl Strategy<Value = UpdateHttpsListenerConfig> {
    (
        any::<u32>(),
        opt(any::<u32>()),
        opt(any::<bool>()),
        (opt(1u32..120), opt(1u32..60), opt(1u32..10), opt(1u32..30)),
        opt(answers()),
        prop_oneof![
            4 => Just(None),
            2 => Just(Some(vec!["h2".to_string(), "http/1.1".to_string()])),
            1 => Just(Some(vec![])),
            1 => Just(Some(vec!["h2".to_string(), "spdy/3".to_string()])),
        ],
        (knob(6), knob(6), prop_oneof![4 => Just(None), 3 => (2u32..8).prop_map(Some), 1 => Just(Some(1u32))]),
        sozu_id_header(4),
        (opt(any::<bool>()), opt(any::<bool>()), opt(hsts())),
    )
        .prop_map(|(a, pa, ep, (ft, bt, ct, rt), ans, alpn, (k1, k2, shrink), sid, (strict, no11, hsts))| UpdateHttpsListenerConfig {
            address: sa(pick(a, LISTENER_ADDRS)),
            public_address: pa.map(|x| sa(pick(x, LISTENER_ADDRS))),
            expect_proxy: ep,
            front_timeout: ft,
            back_timeout: bt,
            connect_timeout: ct,
            request_timeout: rt,
            http_answers: ans,
            alpn_protocols: alpn.map(|values| AlpnProtocols { values }),
            strict_sni_binding: strict,
            disable_http11: no11,
            h2_max_rst_stream_per_window: k1,
            h2_max_settings_per_window: k2,
            h2_stream_shrink_ratio: shrink,
            sozu_id_header: sid,
            hsts,
            ..Default::default()
        })
}

/// One configuration command. `weights` biases toward the verbs a property cares about.
pub fn request() -> impl Strategy<Value = Request> {
    let r = |t: RequestType| -> Request { t.into() };
    prop_oneof![
        6 => cluster().prop_map(move |c| r(RequestType::AddCluster(c))),
        2 => any::<u32>().prop_map(move |c| r(RequestType::RemoveCluster(pick(c, CLUSTERS).to_string()))),
        3 => http_listener().prop_map(move |l| r(RequestType::AddHttpListener(l))),
        3 => https_listener().prop_map(move |l| r(RequestType::AddHttpsListener(l))),
        2 => tcp_listener().prop_map(move |l| r(RequestType::AddTcpListener(l))),
        2 => udp_listener().prop_map(move |l| r(RequestType::AddUdpListener(l))),
        2 => (any::<u32>(), listener_type(8)).prop_map(move |(a, p)| r(RequestType::RemoveListener(RemoveListener { address: sa(pick(a, LISTENER_ADDRS)), proxy: p }))),
        3 => (any::<u32>(), listener_type(8)).prop_map(move |(a, p)| r(RequestType::ActivateListener(ActivateListener { address: sa(pick(a, LISTENER_ADDRS)), proxy: p, from_scm: false }))),
        2 => (any::<u32>(), listener_type(8)).prop_map(move |(a, p)| r(RequestType::DeactivateListener(DeactivateListener { address: sa(pick(a, LISTENER_ADDRS)), proxy: p, to_scm: false }))),
        6 => http_frontend().prop_map(move |f| r(RequestType::AddHttpFrontend(f))),
        2 => http_frontend().prop_map(move |f| r(RequestType::RemoveHttpFrontend(f))),
        5 => http_frontend().prop_map(move |f| r(RequestType::AddHttpsFrontend(f))),
        2 => http_frontend().prop_map(move |f| r(RequestType::RemoveHttpsFrontend(f))),
        3 => tcp_frontend().prop_map(move |f| r(RequestType::AddTcpFrontend(f))),
        1 => tcp_frontend().prop_map(move |f| r(RequestType::RemoveTcpFrontend(f))),
        3 => udp_frontend().prop_map(move |f| r(RequestType::AddUdpFrontend(f))),
        1 => udp_frontend().prop_map(move |f| r(RequestType::RemoveUdpFrontend(f))),
        8 => add_backend().prop_map(move |b| r(RequestType::AddBackend(b))),
        3 => remove_backend().prop_map(move |b| r(RequestType::RemoveBackend(b))),
        5 => (any::<u32>(), certificate(8), opt(Just(1900000000i64))).prop_map(move |(a, c, e)| r(RequestType::AddCertificate(AddCertificate { address: sa(pick(a, LISTENER_ADDRS)), certificate: c, expired_at: e }))),
        2 => (any::<u32>(), fingerprint(8)).prop_map(move |(a, f)| r(RequestType::RemoveCertificate(RemoveCertificate { address: sa(pick(a, LISTENER_ADDRS)), fingerprint: f }))),
        3 => (any::<u32>(), certificate(5), fingerprint(8)).prop_map(move |(a, c, f)| r(RequestType::ReplaceCertificate(ReplaceCertificate { address: sa(pick(a, LISTENER_ADDRS)), new_certificate: c, old_fingerprint: f, new_expired_at: None }))),
        3 => update_http_listener().prop_map(move |p| r(RequestType::UpdateHttpListener(p))),
        3 => update_https_listener().prop_map(move |p| r(RequestType::UpdateHttpsListener(p))),
        1 => (any::<u32>(), opt(1u32..60), opt(any::<bool>())).prop_map(move |(a, ft, ep)| r(RequestType::UpdateTcpListener(UpdateTcpListenerConfig { address: sa(pick(a, LISTENER_ADDRS)), front_timeout: ft, expect_proxy: ep, ..Default::default() }))),
        1 => (any::<u32>(), opt(1u32..60), opt(0u32..9)).prop_map(move |(a, ft, mf)| r(RequestType::UpdateUdpListener(UpdateUdpListenerConfig { address: sa(pick(a, LISTENER_ADDRS)), front_timeout: ft, max_flows: mf, ..Default::default() }))),
        2 => (any::<u32>(), health_check(5)).prop_map(move |(c, hc)| r(RequestType::SetHealthCheck(SetHealthCheck { cluster_id: pick(c, CLUSTERS).to_string(), config: hc }))),
        1 => any::<u32>().prop_map(move |c| r(RequestType::RemoveHealthCheck(pick(c, CLUSTERS).to_string()))),
    ]
}

pub fn history(max: usize) -> impl Strategy<Value = Vec<Request>> {
    prop::collection::vec(request(), 0..max)
}

/// short tag of a request, for class histograms
pub fn verb(r: &Request) -> &'static str {
    match &r.request_type {
        Some(RequestType::AddCluster(_)) => "AddCluster",
        Some(RequestType::RemoveCluster(_)) => "RemoveCluster",
        Some(RequestType::AddHttpListener(_)) => "AddHttpListener",
        Some(RequestType::AddHttpsListener(_)) => "AddHttpsListener",
        Some(RequestType::AddTcpListener(_)) => "AddTcpListener",
        Some(RequestType::AddUdpListener(_)) => "AddUdpListener",
        Some(RequestType::RemoveListener(_)) => "RemoveListener",
        Some(RequestType::ActivateListener(_)) => "ActivateListener",
        Some(RequestType::DeactivateListener(_)) => "DeactivateListener",
        Some(RequestType::AddHttpFrontend(_)) => "AddHttpFrontend",
        Some(RequestType::RemoveHttpFrontend(_)) => "RemoveHttpFrontend",
        Some(RequestType::AddHttpsFrontend(_)) => "AddHttpsFrontend",
        Some(RequestType::RemoveHttpsFrontend(_)) => "RemoveHttpsFrontend",
        Some(RequestType::AddTcpFrontend(_)) => "AddTcpFrontend",
        Some(RequestType::RemoveTcpFrontend(_)) => "RemoveTcpFrontend",
        Some(RequestType::AddUdpFrontend(_)) => "AddUdpFrontend",
        Some(RequestType::RemoveUdpFrontend(_)) => "RemoveUdpFrontend",
        Some(RequestType::AddBackend(_)) => "AddBackend",
        Some(RequestType::RemoveBackend(_)) => "RemoveBackend",
        Some(RequestType::AddCertificate(_)) => "AddCertificate",
        Some(RequestType::RemoveCertificate(_)) => "RemoveCertificate",
        Some(RequestType::ReplaceCertificate(_)) => "ReplaceCertificate",
        Some(RequestType::UpdateHttpListener(_)) => "UpdateHttpListener",
        Some(RequestType::UpdateHttpsListener(_)) => "UpdateHttpsListener",
        Some(RequestType::UpdateTcpListener(_)) => "UpdateTcpListener",
        Some(RequestType::UpdateUdpListener(_)) => "UpdateUdpListener",
        Some(RequestType::SetHealthCheck(_)) => "SetHealthCheck",
        Some(RequestType::RemoveHealthCheck(_)) => "RemoveHealthCheck",
        _ => "other",
    }
}

pub fn is_removal_or_patch(r: &Request) -> bool {
    let v = verb(r);
    v.starts_with("Remove") || v.starts_with("Update") || v == "DeactivateListener" || v == "ReplaceCertificate"
}

#[allow(dead_code)]
fn _unused(_: LoadBalancingAlgorithms, _: LoadMetric, _: ProxyProtocolConfig, _: UdpAffinityKey, _: ListenerType, _: RulePosition, _: PathRuleKind) {}
