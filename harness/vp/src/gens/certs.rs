//! Fixture certificate bank (generated once with openssl, committed under /verif/fixtures/certs).
//! The manifest (names, expiry, sha256 fingerprint) is carried here so models need not parse X.509.

pub struct Fixture {
    pub id: &'static str,
    pub pem: &'static str,
    pub key: &'static str,
    /// names the certificate covers (SAN dNSNames, or the CN when there is no SAN)
    pub names: &'static [&'static str],
    /// notAfter, unix seconds
    pub not_after: i64,
    /// hex sha256 of the DER
    pub fingerprint: &'static str,
}

macro_rules! fx {
    ($id:literal, $names:expr, $na:expr, $fp:literal) => {
        Fixture {
            id: $id,
            pem: include_str!(concat!("../../../../fixtures/certs/", $id, ".pem")),
            key: include_str!(concat!("../../../../fixtures/certs/", $id, ".key")),
            names: $names,
            not_after: $na,
            fingerprint: $fp,
        }
    };
}

include!("certs_table.rs");

pub const BAD_NOTDER: &str = include_str!("../../../../fixtures/certs/bad_notder.pem");
pub const BAD_TRUNCATED: &str = include_str!("../../../../fixtures/certs/bad_truncated.pem");

pub fn by_fingerprint(fp: &str) -> Option<&'static Fixture> {
    BANK.iter().find(|f| f.fingerprint == fp)
}

/// certificate for the wire lab's HTTPS listener: SAN `*.lab`, `lab`, `localhost`
pub const LAB_CERT: &str = include_str!("../../../../fixtures/certs/lab.pem");
pub const LAB_KEY: &str = include_str!("../../../../fixtures/certs/lab.key");
