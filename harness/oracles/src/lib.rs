//! Byte-level oracles shared by the coverage-guided fuzz targets (/verif/fuzz) and by the `vp`
//! binary, which replays the committed fuzz corpus through the very same functions in the quick tier.
//! Every oracle takes raw bytes and returns `Err(description)` when the property is violated;
//! a panic inside the code under test is a violation as well (the callers catch it).

use sozu_command_lib::{proto::command::WorkerRequest, state::ConfigState};
use sozu_lib::protocol::{mux::parser, proxy_protocol};

fn u24(b: &[u8]) -> u32 {
    ((b[0] as u32) << 16) | ((b[1] as u32) << 8) | b[2] as u32
}

/// C15: the HTTP/2 frame decoder consumes exactly 9 octets of header and exactly the declared
/// payload, reports the fields that are on the wire, and never accepts a frame above the limit.
/// Returns a class label for coverage accounting.
pub fn h2_frame(data: &[u8]) -> Result<&'static str, String> {
    let mut class = "rejected";
    for mfs in [16_384u32, 16_777_215] {
        match parser::frame_header(data, mfs) {
            Ok((rest, h)) => {
                if data.len() < 9 {
                    return Err(format!("frame header accepted from {} bytes", data.len()));
                }
                if rest.len() != data.len() - 9 || rest != &data[9..] {
                    return Err(format!("frame_header consumed {} bytes instead of 9", data.len() as i64 - rest.len() as i64));
                }
                let len = u24(&data[0..3]);
                if h.payload_len != len {
                    return Err(format!("payload_len {} on the wire, {} reported", len, h.payload_len));
                }
                if len > mfs {
                    return Err(format!("a {len}-byte frame was accepted with max_frame_size {mfs}"));
                }
                if h.flags != data[4] {
                    return Err(format!("flags {:#x} on the wire, {:#x} reported", data[4], h.flags));
                }
                let sid = u32::from_be_bytes([data[5], data[6], data[7], data[8]]) & 0x7fff_ffff;
                if h.stream_id != sid {
                    return Err(format!("stream id {sid} on the wire (reserved bit masked), {} reported", h.stream_id));
                }
                let t = data[3];
                let expected = match t {
                    0 => parser::FrameType::Data,
                    1 => parser::FrameType::Headers,
                    2 => parser::FrameType::Priority,
                    3 => parser::FrameType::RstStream,
                    4 => parser::FrameType::Settings,
                    5 => parser::FrameType::PushPromise,
                    6 => parser::FrameType::Ping,
                    7 => parser::FrameType::GoAway,
                    8 => parser::FrameType::WindowUpdate,
                    9 => parser::FrameType::Continuation,
                    0x10 => parser::FrameType::PriorityUpdate,
                    o => parser::FrameType::Unknown(o),
                };
                if h.frame_type != expected {
                    return Err(format!("type byte {t:#x} reported as {:?}", h.frame_type));
                }
                class = "header_ok";
                match parser::frame_body(rest, &h) {
                    Ok((remaining, _frame)) => {
                        if (rest.len() as u64) < len as u64 {
                            return Err(format!("frame_body returned a frame although only {} of {len} payload bytes are present", rest.len()));
                        }
                        if remaining.len() != rest.len() - len as usize || remaining != &rest[len as usize..] {
                            return Err(format!("frame_body consumed {} bytes of a {len}-byte payload", rest.len() as i64 - remaining.len() as i64));
                        }
                        class = "frame_ok";
                    }
                    Err(_) => {}
                }
            }
            Err(_) => {}
        }
    }
    Ok(class)
}

const PPV2_SIG: [u8; 12] = [0x0D, 0x0A, 0x0D, 0x0A, 0x00, 0x0D, 0x0A, 0x51, 0x55, 0x49, 0x54, 0x0A];

/// C18: a PROXY-v2 header is accepted only when it is complete and well-formed, the parser consumes
/// exactly 16 + declared length, and the addresses it reports are the ones on the wire.
pub fn ppv2(data: &[u8]) -> Result<&'static str, String> {
    match proxy_protocol::parser::parse_v2_header(data) {
        Ok((rest, header)) => {
            if data.len() < 16 || data[..12] != PPV2_SIG {
                return Err("a header without the 12-byte signature was accepted".into());
            }
            if data[12] >> 4 != 2 {
                return Err(format!("version nibble {} accepted", data[12] >> 4));
            }
            if data[12] & 0x0f > 1 {
                return Err(format!("command nibble {} accepted", data[12] & 0x0f));
            }
            let declared = u16::from_be_bytes([data[14], data[15]]) as usize;
            if data.len() < 16 + declared {
                return Err(format!("header with declared length {declared} accepted from {} bytes", data.len()));
            }
            if rest.len() != data.len() - 16 - declared || rest != &data[16 + declared..] {
                return Err(format!("parser consumed {} bytes, the header is 16 + {declared}", data.len() as i64 - rest.len() as i64));
            }
            let fam = data[13];
            let body = &data[16..16 + declared];
            match fam >> 4 {
                1 => {
                    if declared < 12 {
                        return Err(format!("TCP/UDP over IPv4 header with only {declared} address bytes accepted"));
                    }
                    let src = std::net::SocketAddrV4::new(std::net::Ipv4Addr::new(body[0], body[1], body[2], body[3]), u16::from_be_bytes([body[8], body[9]]));
                    let dst = std::net::SocketAddrV4::new(std::net::Ipv4Addr::new(body[4], body[5], body[6], body[7]), u16::from_be_bytes([body[10], body[11]]));
                    if header.addr.source() != Some(src.into()) || header.addr.destination() != Some(dst.into()) {
                        return Err(format!("IPv4 addresses on the wire {src} -> {dst}, reported {:?} -> {:?}", header.addr.source(), header.addr.destination()));
                    }
                    return Ok("ipv4");
                }
                2 => {
                    if declared < 36 {
                        return Err(format!("IPv6 header with only {declared} address bytes accepted"));
                    }
                    let a = |o: usize| {
                        let mut b = [0u8; 16];
                        b.copy_from_slice(&body[o..o + 16]);
                        std::net::Ipv6Addr::from(b)
                    };
                    let (sp, dp) = (u16::from_be_bytes([body[32], body[33]]), u16::from_be_bytes([body[34], body[35]]));
                    let (s, d) = (header.addr.source(), header.addr.destination());
                    let ok = matches!((s, d), (Some(std::net::SocketAddr::V6(s)), Some(std::net::SocketAddr::V6(d))) if *s.ip() == a(0) && *d.ip() == a(16) && s.port() == sp && d.port() == dp);
                    if !ok {
                        return Err(format!("IPv6 addresses on the wire [{}]:{sp} -> [{}]:{dp}, reported {s:?} -> {d:?}", a(0), a(16)));
                    }
                    return Ok("ipv6");
                }
                3 => {
                    if declared < 216 {
                        return Err(format!("AF_UNIX header with only {declared} address bytes accepted"));
                    }
                    return Ok("unix");
                }
                0 => return Ok("unspec"),
                f => return Err(format!("address family {f} accepted")),
            }
        }
        Err(_) => Ok("rejected"),
    }
}

fn replay(requests: &[WorkerRequest]) -> ConfigState {
    let mut st = ConfigState::new();
    for r in requests {
        let _ = st.dispatch(&r.content);
    }
    st
}

/// C05: whatever state a stream of saved-state records builds, saving it again and loading the result
/// is a fixed point (the second generation equals the first), and nothing panics on the way.
pub fn state_stream(data: &[u8]) -> Result<&'static str, String> {
    let Ok((_, requests)) = sozu_command_lib::parser::parse_several_requests::<WorkerRequest>(data) else {
        return Ok("unparsable");
    };
    if requests.is_empty() {
        return Ok("no_records");
    }
    let first = replay(&requests);
    let regen: Vec<WorkerRequest> = first.produce_initial_state().requests;
    let mut second = ConfigState::new();
    for r in &regen {
        if let Err(e) = second.dispatch(&r.content) {
            return Err(format!("a request produced by generate_requests is rejected on replay: {e} ({:?})", r.content.request_type));
        }
    }
    let regen2: Vec<_> = second.produce_initial_state().requests.into_iter().map(|w| w.content).collect();
    let a: Vec<String> = regen.iter().map(|r| format!("{:?}", r.content)).collect();
    let b: Vec<String> = regen2.iter().map(|r| format!("{r:?}")).collect();
    let (mut sa, mut sb) = (a.clone(), b.clone());
    sa.sort();
    sb.sort();
    if sa != sb {
        let only_a: Vec<&String> = sa.iter().filter(|x| !sb.contains(x)).take(2).collect();
        let only_b: Vec<&String> = sb.iter().filter(|x| !sa.contains(x)).take(2).collect();
        return Err(format!("saving the replayed state again yields other requests: first generation only {only_a:?}, second generation only {only_b:?}"));
    }
    Ok(if regen.is_empty() { "empty_state" } else { "fixed_point" })
}
