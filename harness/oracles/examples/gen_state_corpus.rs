//! Writes a few saved-state streams (the `\n\0`-separated JSON records of `write_requests_to_file`)
//! into the directory given as argument: seeds for the `state_stream` fuzz corpus.
use std::fs::File;

use sozu_command_lib::{
    config::ListenerBuilder,
    proto::command::{
        request::RequestType, AddBackend, Cluster, LoadBalancingParams, PathRule, Request, RequestHttpFrontend, RequestTcpFrontend, RulePosition, SocketAddress,
    },
    state::ConfigState,
};

fn rq(t: RequestType) -> Request {
    Request { request_type: Some(t) }
}

fn main() {
    let dir = std::env::args().nth(1).expect("target directory");
    let a = |p: u16| SocketAddress::new_v4(127, 0, 0, 1, p);
    let mut sets: Vec<(&str, Vec<Request>)> = vec![];
    let http = ListenerBuilder::new_http(a(8080)).to_http(None).unwrap();
    let https = ListenerBuilder::new_https(a(8443)).to_tls(None).unwrap();
    let tcp = ListenerBuilder::new_tcp(a(5000)).to_tcp(None).unwrap();
    let cluster = |id: &str| Cluster { cluster_id: id.into(), ..Default::default() };
    let front = |c: &str, port: u16, host: &str, path: PathRule| RequestHttpFrontend { cluster_id: Some(c.into()), address: a(port), hostname: host.into(), path, position: RulePosition::Tree.into(), ..Default::default() };
    let backend = |c: &str, id: &str, p: u16| AddBackend { cluster_id: c.into(), backend_id: id.into(), address: a(p), sticky_id: None, load_balancing_parameters: Some(LoadBalancingParams { weight: 3 }), backup: Some(false) };
    sets.push(("one_cluster", vec![rq(RequestType::AddCluster(cluster("web"))), rq(RequestType::AddBackend(backend("web", "web-0", 9000)))]));
    sets.push((
        "http_site",
        vec![
            rq(RequestType::AddHttpListener(http.clone())),
            rq(RequestType::AddCluster(cluster("web"))),
            rq(RequestType::AddHttpFrontend(front("web", 8080, "example.com", PathRule::prefix("/".to_string())))),
            rq(RequestType::AddHttpFrontend(front("web", 8080, "*.example.com", PathRule::regex("/api/[0-9]+".to_string())))),
            rq(RequestType::AddBackend(backend("web", "web-0", 9000))),
            rq(RequestType::AddBackend(backend("web", "web-1", 9001))),
        ],
    ));
    sets.push((
        "tls_and_tcp",
        vec![
            rq(RequestType::AddHttpsListener(https.clone())),
            rq(RequestType::AddTcpListener(tcp.clone())),
            rq(RequestType::AddCluster(cluster("api"))),
            rq(RequestType::AddCluster(cluster("db"))),
            rq(RequestType::AddHttpsFrontend(front("api", 8443, "api.example.com", PathRule::equals("/v1".to_string())))),
            rq(RequestType::AddTcpFrontend(RequestTcpFrontend { cluster_id: "db".into(), address: a(5000), ..Default::default() })),
            rq(RequestType::AddBackend(backend("db", "db-0", 5432))),
        ],
    ));
    for (name, reqs) in sets {
        let mut st = ConfigState::new();
        for r in &reqs {
            st.dispatch(r).expect("seed request accepted");
        }
        let mut f = File::create(format!("{dir}/{name}")).expect("create");
        st.write_requests_to_file(&mut f).expect("write");
    }
}
