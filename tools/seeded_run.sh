#!/bin/bash
# tools/seeded_run.sh <ID> <mN> [check-id ...]
# Apply the seeded regression /verif/seeded/<ID>/<mN>/patch.diff to /repo, run the given checks
# (default: the property's own check) in their quick tier, record what they reported in
# /verif/seeded/<ID>/<mN>/result.json, and restore /repo. Never commits anything in /repo.
set -u
ID=$1; M=$2; shift 2
CHECKS="${*:-$ID}"
D=/verif/seeded/$ID/$M
[ -f $D/patch.diff ] || { echo "no patch $D/patch.diff"; exit 2; }
if [ -n "$(git -C /repo status --porcelain)" ]; then echo "/repo is not clean"; exit 2; fi
if ! git -C /repo apply --check $D/patch.diff 2>/dev/null; then
  if ! git -C /repo apply --3way $D/patch.diff >/dev/null 2>&1; then echo "$ID/$M: patch does not apply"; git -C /repo checkout -- . ; git -C /repo reset -q; exit 3; fi
  git -C /repo reset -q
else
  git -C /repo apply $D/patch.diff
fi
res="["
for c in $CHECKS; do
  s=$(date +%s)
  VERIF_SEED=${VERIF_SEED:-7} /verif/check $c quick > /verif/scratch/seeded-$ID-$M-$c.log 2>&1
  rc=$?
  e=$(( $(date +%s) - s ))
  sigs=$(grep -A1 '^VIOLATION' /verif/scratch/seeded-$ID-$M-$c.log | grep -o '\] [^ ]*:' | sort | uniq -c | sort -rn | head -5 | awk '{print $3}' | tr -d ':' | paste -sd, -)
  inc=$(grep -c 'INCONCLUSIVE' /verif/scratch/seeded-$ID-$M-$c.log)
  echo "$ID/$M check=$c rc=$rc ${e}s violations=$(grep -c '^VIOLATION' /verif/scratch/seeded-$ID-$M-$c.log) sigs=[$sigs] inconclusive=$inc"
  res="$res{\"check\":\"$c\",\"exit\":$rc,\"wall_s\":$e,\"violations\":$(grep -c '^VIOLATION' /verif/scratch/seeded-$ID-$M-$c.log),\"signatures\":\"$sigs\"},"
done
res="${res%,}]"
[ -f $D/result.json ] && [ ! -f $D/result_first.json ] && cp $D/result.json $D/result_first.json
echo "{\"seed\":${VERIF_SEED:-7},\"repo_head\":\"$(git -C /repo rev-parse --short HEAD)\",\"results\":$res}" > $D/result.json
git -C /repo checkout -- .
# the evidence files were rewritten by runs against the modified tree: put the committed ones back
git -C /verif checkout -q -- evidence/ 2>/dev/null
git -C /repo clean -fdq -e target 2>/dev/null
[ -z "$(git -C /repo status --porcelain)" ] || echo "WARNING: /repo not clean after restore"
