#!/bin/bash
# run every registered quick (or $2) check once with seed $1, print one status line per check
cd /verif
SEED=${1:-0}; TIER=${2:-quick}
for id in $(python3 -c "import json;print(' '.join(c['property_id'] for c in json.load(open('MANIFEST.json'))['checks']))"); do
  s=$(date +%s)
  VERIF_SEED=$SEED ./check $id $TIER > scratch/runall-$id.log 2>&1
  rc=$?
  e=$(( $(date +%s) - s ))
  echo "$id rc=$rc ${e}s $(grep -c '^VIOLATION' scratch/runall-$id.log) violations; $(tail -1 scratch/runall-$id.log | cut -c1-160)"
done
