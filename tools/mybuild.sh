#!/bin/bash
# Build the harness from a private snapshot of the sources.
#  * modules other agents are still writing (listed in $STUBS) are replaced by their committed version
#    (helper modules <m>_*.rs that are not committed yet are dropped together with their `mod` line);
#  * sozu comes from a clean worktree of /repo at HEAD (/var/tmp/repo-clean), never from /repo's working
#    tree, which tools/seeded_run.sh may be modifying at the same time;
#  * with MUTANT=<patch> the patch is applied to a second scratch worktree (/var/tmp/repo-mut) and the
#    binary goes to /var/tmp/vp-mut-target/verif/vp (used to develop a check against a seeded regression).
set -e
SNAP=/var/tmp/vpsnap/harness
REPO=/var/tmp/repo-clean; TGT=/var/tmp/vp-main-target
if [ -n "${MUTANT:-}" ]; then REPO=/var/tmp/repo-mut; TGT=/var/tmp/vp-mut-target; SNAP=/var/tmp/vpsnap-mut/harness; fi
mkdir -p $SNAP
rsync -a --delete --exclude target /verif/harness/ $SNAP/
ln -sfn /verif/fixtures $(dirname $SNAP)/fixtures
for m in $STUBS; do
  git -C /verif show HEAD:harness/vp/src/props/$m.rs > $SNAP/vp/src/props/$m.rs
  git -C /verif show HEAD:harness/vp/Cargo.toml > $SNAP/vp/Cargo.toml
  for f in $SNAP/vp/src/props/${m}_*.rs; do
    [ -e "$f" ] || continue
    b=$(basename $f .rs)
    if ! git -C /verif cat-file -e HEAD:harness/vp/src/props/$b.rs 2>/dev/null; then
      rm -f $f; sed -i "/mod $b;/d" $SNAP/vp/src/props/mod.rs
    fi
  done
done
git -C $REPO checkout -q -- . ; git -C $REPO checkout -q --detach $(git -C /repo rev-parse HEAD) 2>/dev/null
if [ -n "${MUTANT:-}" ]; then git -C $REPO apply $MUTANT && echo "(scratch worktree $REPO carries $MUTANT)"; fi
sed -i "s#\"/repo/#\"$REPO/#g" $SNAP/vp/Cargo.toml $SNAP/oracles/Cargo.toml
cd $SNAP && CARGO_NET_OFFLINE=true CARGO_TARGET_DIR=$TGT cargo build --profile verif 2>&1 | grep -E "^error" -A14 | head -60
rc=${PIPESTATUS[0]}
if [ -n "${MUTANT:-}" ]; then git -C $REPO checkout -q -- . ; fi
if [ $rc -ne 0 ]; then echo "BUILD FAILED"; exit 1; fi
echo "built: $TGT/verif/vp"
