#!/bin/bash
# Build the harness from a private snapshot of the sources in which the modules other agents are
# still writing (listed in $STUBS, default none) are replaced by their committed version.
set -e
SNAP=/var/tmp/vpsnap/harness
mkdir -p $SNAP
rsync -a --delete --exclude target /verif/harness/ $SNAP/
for m in $STUBS; do git -C /verif show HEAD:harness/vp/src/props/$m.rs > $SNAP/vp/src/props/$m.rs; done
cd $SNAP && CARGO_NET_OFFLINE=true CARGO_TARGET_DIR=/var/tmp/vp-main-target cargo build --profile verif 2>&1 | grep -E "^error" -A14 | head -60
echo "built: /var/tmp/vp-main-target/verif/vp"
