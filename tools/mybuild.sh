#!/bin/bash
# Build the harness from a private snapshot of the sources in which the modules other agents are
# still writing (listed in $STUBS, default none) are replaced by their committed version
# (helper modules <m>_*.rs that are not committed yet are dropped together with their `mod` line).
set -e
SNAP=/var/tmp/vpsnap/harness
mkdir -p $SNAP
rsync -a --delete --exclude target /verif/harness/ $SNAP/
for m in $STUBS; do
  git -C /verif show HEAD:harness/vp/src/props/$m.rs > $SNAP/vp/src/props/$m.rs
  git -C /verif show HEAD:harness/vp/Cargo.toml > $SNAP/vp/Cargo.toml
  for f in $SNAP/vp/src/props/${m}_*.rs; do
    [ -e "$f" ] || continue
    b=$(basename $f .rs)
    if ! git -C /verif cat-file -e HEAD:harness/vp/src/props/$b.rs 2>/dev/null; then
      rm -f $f; sed -i "/mod $b;/d" $SNAP/vp/src/props/mod.rs
    fi
  done
done
# development builds use a clean worktree of /repo (HEAD), so that a seeded regression applied to /repo's
# working tree by tools/seeded_run.sh at the same time is never compiled in by accident
git -C /var/tmp/repo-clean checkout -q --detach $(git -C /repo rev-parse HEAD) 2>/dev/null
git -C /var/tmp/repo-clean checkout -q -- . ; if [ -n "${MUTANT:-}" ]; then git -C /var/tmp/repo-clean apply $MUTANT && echo "(scratch worktree carries $MUTANT)"; fi
sed -i 's#"/repo/#"/var/tmp/repo-clean/#g' $SNAP/vp/Cargo.toml $SNAP/oracles/Cargo.toml
cd $SNAP && CARGO_NET_OFFLINE=true CARGO_TARGET_DIR=/var/tmp/vp-main-target cargo build --profile verif 2>&1 | grep -E "^error" -A14 | head -60
if [ ${PIPESTATUS[0]} -ne 0 ]; then echo "BUILD FAILED"; exit 1; fi
git -C /var/tmp/repo-clean checkout -q -- .
echo "built: /var/tmp/vp-main-target/verif/vp"
