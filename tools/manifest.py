#!/usr/bin/env python3
"""Regenerate /verif/MANIFEST.json from the table below (keeps it schema-valid at all times)."""
import json, subprocess, sys, os

ROOT = os.path.dirname(os.path.dirname(os.path.abspath(__file__)))

# id -> (level category, technique, level text, level note, design ref)
CHECKS = {
    "C01": ("exploration",
            "generated-scenario search in a wire lab (real worker thread, scripted raw-socket peers) with an exact content oracle",
            "Each scenario drives one keep-alive client connection through a live worker's HTTP listener to an HTTP/1.1 mock backend: 1..4 POST requests with request and response bodies of boundary-biased sizes (around buffer_size 16393, 16384, 32768, 65535/65536, up to 256 KiB; thorough 6 MiB) of keyed content, framed Content-Length / chunked with generated chunk sizes / close-delimited, under four generated I/O scripts (dribbles, token splits, pauses, read stalls, bounded socket buffers). Every body must arrive byte-identical and every message end cleanly; each request reaches the backend exactly once. 16 OS-process labs; a failure is re-run on a fresh worker and reported only if it reproduces. A second sub-check (h2pairs) drives one HTTP/2-over-TLS client connection (own frame codec, HPACK via loona-hpack, rustls) with 1..8 concurrent POST streams to an HTTP/1.1 or an h2c mock backend with generated DATA frame sizes and padding on both HTTP/2 legs: exact bodies per stream, END_STREAM seen, no cross-stream mix-up, plus the HTTP/2 limits ledger.",
            "A third sub-check (h1h2c) covers the fourth pair: 1..3 parallel HTTP/1.1 client connections, each a keep-alive sequence of 1..4 requests (Content-Length / chunked bodies, 0..2 trailer fields) to an h2c mock backend with generated SETTINGS (initial window 0 / 1 / 9 / 16383 / 65535 / 2^31-1, max frame size), credit schedules that end in automatic replenishment, response DATA of generated sizes with padding, END_STREAM on the last DATA / trailers / an empty DATA frame / HEADERS; exact bodies both ways, clean message ends, response k for request k, the backend's windows and frame size respected, no byte-less period of 2.5 s. Trailers count as a framing hazard only (their fidelity is C13's subject); kernel segmentation and epoll wake-up order are shaped, not owned; splice off; known findings excluded by construction with strict reproducers: three HTTP/2 shapes under C14 (frame storm, head-of-line stall when both peers withhold credit, streams attached before the backend's SETTINGS), the session loop's iteration budget on bodies of a million chunks, and two HTTP/1.1 -> h2c shapes (a length-complete response whose END_STREAM comes on a later frame; request trailers split across reads).",
            "DESIGN.md §4 C01"),
    "C02": ("fault_enumeration",
            "generated fault-scenario search in a wire lab (real worker, scripted HTTP/1.1 and HTTP/2 clients, programmable HTTP/1.1 and h2c mock backends) against the admissible answer set per injected cause",
            "Each scenario is a sequence of requests on one or more client connections through a live worker with two HTTP listeners (default answers; keep-alive answer templates) to clusters that are healthy, missing, refusing, closing at accept, denied or per-IP limited, with an injected cause per request (backend closes without answer / mid-request / cuts head or body / stalls / answers late / garbage / answers before the body ended; client stops mid head or body). Oracle per request: exactly one answer, status in the property's set for the cause, proxy-made answers well-formed, a relayed 200 answers this request with the exact body, after a cut either a sole 502/504 or an abort whose bytes are a prefix of the backend's, time to answer within the governing timeout + 3 s, self-answered requests never reach a backend, the next request and a final probe are served. Failures are re-run twice on a fresh lab.",
            "Sub-check h2answers does the same for an HTTP/2 client (TLS, own frame codec): 1..4 streams on one connection, opened together or one after the other, to HTTP/1.1 and h2c backends with a generated cause per stream (routing outcomes 404 / 401 / 421 / 429 / 503; refusing, closing at accept, closing without answer, garbage, cut at a generated offset by FIN or RST, stalls before / inside the response; h2c: RST_STREAM, GOAWAY, close, silence at three points), backend connection reuse and shared h2c connections; per stream exactly one outcome from the client's own frames (complete exact response, proxy answer with a status admissible for the cause, or an explicit abort where a response had started), never END_STREAM on a truncated body, outcomes within the governing timeout, healthy streams unaffected by their neighbours. Not generated: client-side faults on HTTP/2 (408), HTTP/1.1 client -> h2c backend, connect timeout against a black-holed address.",
            "DESIGN.md §4 C02"),
    "C03": ("exploration",
            "grammar-based mutation of valid HTTP/1.1 request streams and of HTTP/2 header lists / frame sequences through a live worker; differential oracle: a strict RFC 9112 reader plus 14 permissive reader variants must agree on what each backend connection received, and it must be what sozu stamped",
            "Generated pipelined request streams (Content-Length / chunked bodies, embedded request text in bodies) are mutated by 19 smuggling mutators (CL/TE conflicts and variants, duplicate and malformed lengths, bare LF/CR, obs-fold, whitespace before colon, invalid bytes in names/values, chunk extensions and sizes, HTTP/1.0 + TE, ...) plus byte-level mutations and sent at generated segmentations through a live worker to recording backends of two clusters. Oracle on the bytes each backend connection received: accepted by the strict reader with all variants agreeing on boundaries; every request found carries exactly one Sozu-Id (was emitted by sozu as a head), the routed cluster's host, method/target/body equal to the client message with that marker; no CR/LF/NUL/CTL in forwarded values, every forwarded field is the client's or one of sozu's documented additions; the client receives a readable response sequence with no response delivered twice. An in-process sub-check guards the readers themselves.",
            "Sub-check h2smuggle covers the HTTP/2 frontend: 1..4 streams of one TLS/h2 connection toward recording keep-alive HTTP/1.1 backends, valid requests plus 0..2 of 19 mutation families (content-length against DATA in every END_STREAM placement, duplicate / malformed content-length, transfer-encoding, connection-specific fields, forbidden bytes in names and values, pseudo-header order / duplication / content, :path and :method injections, trailers carrying framing fields, bodies that look like requests), written in generated pieces with CONTINUATION splits and padding; same reader-agreement oracle plus marker, method/target/host, body = DATA sent, no injected line, and every answer belongs to its own stream. h2c backends and frame-level faults are left to C13 / C15; CONNECT / Upgrade / Expect are not generated; no coverage-guided byte fuzzer for this property. Known findings excluded by construction with strict reproducers: seven HTTP/1.1 shapes (mostly in the kawa parser); three HTTP/2 shapes found by h2smuggle were repaired in sozu.",
            "DESIGN.md §4 C03"),
    "C13": ("exploration",
            "generated header-list search in a wire lab with an exact field-by-field oracle on what the backend received and what the client received",
            "One scenario = 1..3 HTTP/1.1 requests (keep-alive) through one of five plain-HTTP listeners (default; elide/send X-Real-IP; custom correlation header and sticky name; expect_proxy with hand-built PROXY-v2 headers, IPv4/IPv6 sources) from a generated 127.a.b.c source to a plain, a sticky or a header-editing cluster. Heads mix proxy-managed names, cookies incl. the sticky name and case variants, Connection-named and hop-by-hop fields, duplicates, long/empty/obs-text values, chunked bodies with trailers. Oracle byte-exact on both sides: method, target, body; every end-to-end field intact and in order; X-Forwarded-For / Forwarded = client's elements + the real peer; X-Real-IP per listener flags; X-Forwarded-Proto/Port; exactly one request id and one correlation header (a ULID); sticky crumbs removed, others intact; nothing protected arrives through trailers; responses intact plus exactly the documented additions.",
            "Sub-check h2paths sends generated header lists, cookies, bodies and trailers across the three conversions HTTP/1.1 -> h2c, HTTP/2 (TLS) -> HTTP/1.1 and HTTP/2 -> h2c (own frame codec, both peers' own HPACK decoders), judged by the same field-by-field oracle plus the HTTP/2 conditions (pseudo-headers once and first, lower-case names, no connection-specific field, TE only trailers, trailers intact, nothing protected through trailers, forbidden fields refused and never forwarded). HSTS, PROXY protocol, sticky clusters and frontend edits only on the HTTP/1.1 path; direct IPv6 peers not exercised. Three HTTP/2 trailer shapes are known findings excluded by construction with strict reproducers.",
            "DESIGN.md §4 C13"),
    "C14": ("exploration",
            "generated SETTINGS / WINDOW_UPDATE schedule search with byte-accounting scripted HTTP/2 peers (own frame codec) on both sides of a live worker; ledger invariants plus completion",
            "Each scenario: an HTTP/2-over-TLS client and (half the time) an h2c mock backend, each with generated SETTINGS (initial window 0 / 1 / 9 / 16383 / 16384 / 65535 / up to 2^31-1, max frame size, max concurrent streams, header table size), generated WINDOW_UPDATE schedules (drips, bursts, stream-only, connection-only), optional mid-connection SETTINGS that shrink windows, slow backend SETTINGS, 1..4 streams with bodies up to 120000 bytes both ways, generated DATA frame sizes and padding. The peers keep their own ledger: any DATA beyond the stream or connection window they granted, any frame above their MAX_FRAME_SIZE, more open streams than their MAX_CONCURRENT_STREAMS, illegal stream ids or header blocks that do not decode is a violation; every body must be complete and byte-identical once the schedule has granted enough (a schedule always ends in automatic replenishment). Failures are re-run twice on a fresh lab.",
            "Liveness is asserted only when at most one side withholds credit or there is a single stream (the two-sided case is a known finding: head-of-line stall); generated cases stay below 3000 DATA frames per direction (frame-storm finding) and open streams one after the other when the backend's stream limit is below the stream count (attached-before-SETTINGS finding); strict reproducers cover the three.",
            "DESIGN.md §4 C14"),
    "C08": ("exploration",
            "stateful generated command-sequence search against a live worker (real Server in a thread, real command channel) with a ConfigState reference model and live probes",
            "Each scenario starts a fresh worker and sends 1..3 bursts of commands over the command channel (all 40 mutating / query / control verb classes, valid and invalid, bursts written in one write so the worker reads them as one batch, port blockers to make activations fail, optional client traffic in between), then a closing Status, queries, probes and a stop verb (SoftStop or HardStop, possibly with a tail of commands in the same write). Oracle: every id sent gets exactly one final answer and no unknown id is answered; the worker's queryable view (QueryClusterById for five ids, QueryClustersHashes) equals a ConfigState fed the commands answered OK; connect() succeeds exactly on the addresses the model has an active listener on (ownership checked through /proc); a routed GET for a plain frontend reaches one of the model's backends; the stop verb gets one OK and the worker thread ends within 4 s; a worker panic anywhere is a failure. Failures are re-run twice on new workers.",
            "Listeners are added inactive then activated, as the CLI does; SCM hand-over only at the end of a burst; interleaved traffic is not judged beyond panics; routing negatives not checked. Two shapes are known findings excluded by construction with strict reproducers (a Failure answer that still changes the queryable view; frontends lost when a listener is removed and added again); six others were repaired in sozu and are generated freely.",
            "DESIGN.md §4 C08"),
    "C09": ("fault_enumeration",
            "generated fault-script search over a real CommandHub with scripted fake workers and real unix-socket clients",
            "Each scenario runs the real main-process CommandHub in a thread (worker_timeout 1 s) with 1..3 fake workers registered through register_worker and 1..3 real clients on the command socket; per (worker, request) a generated behaviour (ok, failure, silent, channel closed, duplicate ok, late ok, processing then ok, processing only, unknown id) with generated arrival delays, over mutating, query, status, load-state and stop verbs. Oracle: exactly one final answer per request within the deadline, never another client's, OK iff every worker alive at dispatch answered successfully, the hub thread stays alive, answers a final Status and stops.",
            "Fake workers stand in for forked worker processes (their pids are harmless sleep children); requests are sent sequentially per client connection; upgrade_worker / automatic restart are not reached; two shapes (LoadState and SoftStop without timeout) are known findings excluded by construction and reproduced from regression files.",
            "DESIGN.md §4 C09"),
    "C12": ("exploration",
            "stateful property-based testing (proptest) of BackendMap/BackendList against an eligibility model; set-membership oracle for selections, exact oracle for counters and retirement",
            "Generated histories (add/remove/re-add, in-place updates, health probes with thresholds, retry failures/successes, forced down / back-off / expiry through the verif hooks, policy changes over the six policies, open/close, keyed and sticky selections) on the real BackendMap; every selection must land in the admissible set (eligible primaries, else eligible backups, else the documented fail-open set), a valid sticky cookie wins iff its backend qualifies, HRW and Maglev keep one key on one backend while the eligible set is unchanged, connection/request counts equal the model after every op and return to zero, removed backends drain then retire. Bounded exploration.",
            "Selection is driven through the non-connecting entry points; Random/PowerOfTwo are judged by membership only; back-off windows are driven by the verif hooks (no sleeping); the worker's connect path and metrics gauges are not in the loop.",
            "DESIGN.md §4 C12"),
    "C17": ("exploration",
            "stateful property-based testing (proptest) of CertificateResolver against a cover model built from the fixture manifest; generated certificate command histories against a live HTTPS listener judged by real TLS handshakes (rustls client reading the presented leaf) and strict-SNI requests",
            "Generated histories of add / remove / replace (idempotent, failing, unparsable old fingerprint, overriding names and expiry) over a bank of certificates with overlapping exact and wildcard names; after every operation 54 probe names are looked up and the served fingerprint must be loaded, cover the name (exact over wildcard, longest-lived among equals), be the default only when nothing covers it, and agree with names_for_sni and the store. Bounded exploration of the resolver; real TLS handshakes, the replace window under concurrent handshakes and strict SNI binding (421) are wire-lab checks not built yet.",
            "Sub-check handshake: 1..12 Add / Remove / Replace commands over the real command channel, after each 2..6 handshakes for exact, wildcard, uncovered, case-variant names and without SNI: the presented leaf must be in the model's admissible set, a removed certificate is never presented again, a Failure changes nothing; one HTTP request per connection: with strict SNI binding an authority the presented certificate does not cover (label boundary required) gets 421 and reaches no backend; handshakes racing a ReplaceCertificate complete with the old or the new certificate. In-process tier: domain_lookup is called the way the rustls resolver calls it; names and expiry come from the fixture manifest.",
            "DESIGN.md §4 C17"),
    "C11": ("exploration",
            "stateful property-based testing (proptest) of Channel over a real unix socket pair against a two-queue model with an independent frame encoder/decoder",
            "Generated op sequences (peer writes of arbitrary sizes of a byte stream made of valid frames of generated sizes and injected malformed ones, channel readable/read_message/write_message/writable, peer reads) on a Channel with generated small buffer and maximum sizes and small socket buffers, in non-blocking mode (three owners: arbitrary caller, a mirror of the worker's read loop, the main process's extract_messages) and blocking mode; after every op the buffers are compared with the model, every message must be delivered exactly once, intact, in order, malformed frames yield errors without wedging the channel where the frame boundary is known, and capacities never exceed the ceiling. Bounded exploration.",
            "Peer close / HUP handling and buffer_size > max_buffer_size configurations are not generated; the cargo-fuzz target for the byte stream is not built yet.",
            "DESIGN.md §4 C11"),
    "C19": ("exploration",
            "stateful property-based testing (proptest) of the pure UdpManager with a virtual clock against a reference flow-table model; generated bursts of interleaved clients against a live worker's UDP listener with recording mock backends (wire lab)",
            "Generated interleavings of client datagrams, backend datagrams, backend resolutions (prompt, late, duplicate, stale), clock advances, timeouts (exact, late, and early as the timer wheel can fire), cap / affinity / PROXY-v2 / cluster reconfiguration, drain and mass teardown; after every call the drained outputs are compared with the model: one backend per flow for its whole life, replies only to the flow's client, payloads at most once and in order, PROXY-v2 prefix validated, admission only under the cap, each flow closed exactly once, accounting and timer consistent. Bounded exploration; the real UDP listener with sockets is not in the loop.",
            "Sub-check wire: the configuration reaches the worker in one of three generated orders (cluster first; frontend before cluster; a cluster in service updated by a second AddCluster), then 2..6 clients on their own loopback addresses send keyed datagrams (0 bytes .. 64 KiB) in back-to-back bursts that mix a new flow's first datagram with datagrams of established flows, with one silence beyond the idle timeouts, under generated caps (requests, responses, max flows), affinity modes, load-balancing policies and PROXY-v2 modes; from what the backends recorded and the clients received: one upstream socket per flow life and one backend per life, lives never interleave, every payload byte-exact, at most once and in order, replies only to their own client, caps respected, expired flows closed (a late backend datagram never reaches the client), worker alive. No IPv6, no mid-flow reconfiguration beyond the known finding (affinity change with live flows, strict reproducer).",
            "DESIGN.md §4 C19"),
    "C15": ("exploration",
            "property-based testing of the frame decoder against an independent RFC 9113 reference decode, plus generated anomaly injection into live HTTP/2 conversations (own frame codec over TLS) judged by an expectation model written from RFC 9113",
            "Sub-check decoder: 200 000 generated byte strings and structured frames (every type, near-miss lengths, forbidden stream ids, reserved bit, padding longer than the payload, lengths above max_frame_size in {16384, 2^24-1}) through parser::frame_header / frame_body: never panics, Ok only for a complete rule-abiding frame consuming exactly 9 + declared length with typed fields equal to the reference decode, Err class among the classes of the rules broken. Sub-check conn: a valid conversation skeleton (preface, SETTINGS exchange, 0..3 open / half-closed / closed streams to an HTTP/1.1 or h2c backend) with one generated anomaly or flood (17 families: frames on idle / even / closed / half-closed streams, CONTINUATION misuse, PRIORITY, WINDOW_UPDATE 0 / overflow, nine SETTINGS defects, PING / RST_STREAM / GOAWAY misuse, oversized frames and header lists, malformed requests, streams above the advertised limit, frames after GOAWAY, truncated frames, invalid prefaces, floods of 8..2000 frames). Oracle: the reaction on the wire is in the RFC's admissible set for the state the anomaly met (ENHANCE_YOUR_CALM admitted from the smallest documented flood threshold on), the connection is closed within 3 s after an error GOAWAY, untouched streams complete exactly, the worker stays alive and serves a fresh HTTP/2 and HTTP/1.1 probe during and after, never more streams served than advertised.",
            "ENHANCE_YOUR_CALM is only admitted, never required; the serializer round trip and HPACK budgets in-process are not part of this check. Sub-check corpus replays the committed frame corpus (repository seeds) under generated mutations through the byte-level oracle shared with the cargo-fuzz target h2_frames, which the thorough tier runs as a bounded libFuzzer campaign.",
            "DESIGN.md §4 C15"),
    "C16": ("exploration",
            "stateful property-based testing (proptest) of the worker's SessionManager against a multiset model of live sessions and per-(cluster, IP) slots; generated storms of client/backend interactions against a live worker whose gauges must return exactly to their baseline (wire lab)",
            "Generated histories of accept / request-through-the-per-IP-gate / close / runtime limit changes / per-cluster overrides on the real SessionManager, called exactly as the mux router and tcp sessions call it; admission verdicts, connection count, accept hysteresis, per-IP verdict == (slots taken >= limit in force) without false refusals, and return to zero after all sessions closed. The live-worker part (gauges, buffers, slab entries, timers, storms above max_connections) is a wire-lab check not built yet.",
            "Sub-check baseline: storms of 3..25 interactions of 22 kinds (normal exchanges, silent clients, aborts, backend timeouts / refusals / garbage, HTTP/2 idle and resets, abandoned TLS handshakes, TCP sessions, WebSocket upgrades, per-IP limited cluster) on HTTP, HTTPS and TCP listeners; afterwards every gauge QueryMetrics returns (proxy, cluster, backend level) must be back at its baseline value, idle sessions must be reclaimed by the worker's own timeouts, no gauge underflow, probes served. Not covered: storms above max_connections, a small buffer pool, Backend.active_connections (not exposed). One known finding (WebSocket upgrade leaks backend gauges) is tolerated by construction and played by a strict reproducer.",
            "DESIGN.md §4 C16 (a)"),
    "C10": ("exploration",
            "property-based round-trip testing (proptest) of the SCM_RIGHTS listener hand-off codec with fd-identity and fd-leak oracles; generated soft-stop / hand-over scenarios against a live worker with requests in flight (wire lab)",
            "Generated listener sets (0..200 entries, four kinds, IPv4/IPv6 addresses of every textual length, real bound sockets and dups, blocking and non-blocking) are sent with send_listeners over a UnixStream pair and received with receive_listeners: same lists, same order, every received descriptor is the same open file (fstat) bound to its address; sets above the limit give a clean error; a single-threaded sub-check counts process descriptors before/after. The hand-over under traffic (soft stop, successor worker) is the wire-lab part and is not built yet.",
            "Sub-check softstop: a fresh worker with 1..5 listeners and 1..6 requests in generated phases (body partly sent, backend waiting, response in progress, Expect: 100-continue before the interim response, idle keep-alive, client stalled under back-pressure) receives SoftStop alone or ReturnListenSockets + SoftStop: every in-flight request completes byte-exact, the final OK comes after the last response was produced, the worker exits, nothing new is served, every handed-over listener comes out of the SCM socket bound to its address. Not covered: master-side fork/exec, a successor worker, HTTP/2 / TLS / TCP sessions in flight.",
            "DESIGN.md §4 C10 (a)"),
    "C18": ("exploration",
            "property-based testing (proptest): PROXY-v2 codec round trip against an independent byte-level reading of the specification; ExpectProxyProtocol driven over an in-memory socket at generated split points",
            "Encoder output is read back by a hand-written specification reader and by the parser; arbitrary/near-miss byte strings must be accepted only when they hold a complete v2 header, consuming exactly 16 + declared length; ExpectProxyProtocol<FakeSocket> receives hand-built headers (all families, LOCAL/PROXY, TLV tails, malformed flavours) plus payload in generated read sizes with would-blocks and must upgrade exactly when the header is complete, with its addresses, and close on malformed input. A wire-lab sub-check runs one TCP session through a live worker per scenario (plain / send / expect / relay PROXY modes, generated payloads up to 256 KiB (thorough 4 MiB) each way, one case in thirteen a bulk transfer of 8-20 MiB whose receiver stops reading for 0.9-1.8 s with default socket buffers, four generated I/O scripts with dribbles, pauses, read stalls and small socket buffers, hand-built incoming headers with TLV tails or malformed): both byte streams exact and in order, end-of-stream only after all bytes, exactly one well-formed header with the right addresses toward the backend; failures are re-run on a fresh worker and reported only when they reproduce. Sub-check corpus: hand-built PROXY-v2 headers under generated byte mutations through the byte-level oracle shared with the cargo-fuzz target ppv2 (bounded libFuzzer campaign in the thorough tier).",
            "Kernel segmentation and epoll order are shaped, not owned; closing is acknowledged (each side half-closes once everything arrived) because independent half-closes hit a known finding; the WebSocket-upgrade relay is not exercised; splice feature off.",
            "DESIGN.md §4 C18"),
    "C20": ("exploration",
            "property-based testing (proptest): abstract configuration -> own TOML printer -> real loader -> fresh ConfigState, compared with expectations computed from the abstract configuration; constraint-violating neighbours must be rejected",
            "Generated abstract configurations (listeners of four protocols, http/tcp clusters, frontends with every path kind/position/method/tags/certificates, backends, sizes crossing 255/256/512 messages) are printed to TOML, loaded by Config::load_from_path, turned into messages and dispatched on a fresh instance: every message accepted, ids unique, objects equal the declared ones with documented defaults, reload idempotent with empty diff; seven kinds of invalid neighbour must be rejected at load time. Bounded exploration.",
            "Expected objects come from the harness's own reading of doc/configure.md and the proto defaults; where they disagree (absent frontend position: proto says TREE, loader applies PRE) both are admitted and the case is counted. The master's load_static_config scatter to workers is not run.",
            "DESIGN.md §4 C20"),
    "C05": ("exploration",
            "property-based testing (proptest): generated command histories -> reachable ConfigState -> every save/replay encoding -> fresh instance, compared by exact projection; generated state files through the real main process's LoadState/SaveState; mutation-based replay of a fuzz corpus of state streams (libFuzzer campaign in the thorough tier)",
            "Generated command histories (every mutating verb, valid/invalid arguments, colliding pools, empty REGEX/EQUALS path rules) build a reachable ConfigState which is replayed through the in-memory bootstrap requests, the protobuf InitialState blob, the \\n\\0-separated JSON state file (a fraction through real files), the JSON upgrade payload and a within-verb permutation; each replay must be accepted in full and reproduce the exact projection (an empty bucket left behind counts as a difference). Sub-check loadfile: the state (plus certificate records of 2..60 kB) is written by write_requests_to_file, loaded by a real CommandHub without workers over its unix socket (LoadState), saved again (SaveState) and replayed: both commands OK, same projection. Sub-check corpus: committed state-stream corpus under generated byte mutations through the save/load fixed-point oracle.",
            "The fork/exec of upgrade_main is not run (UpgradeData.state is the JSON round trip checked here); state records above 150 kB are not generated (the loader reads through a 200 000-byte window).",
            "DESIGN.md §4 C05"),
    "C06": ("exploration",
            "property-based testing (proptest): generated pairs of reachable configurations, diff applied to the source, projection compared with the target",
            "Pairs (A,B) sharing a generated prefix and diverging by independent suffixes; A.diff(B) is dispatched request by request onto a clone of A (each must be accepted) and must yield B; both directions; diff(A,A) must be empty. Bounded exploration.",
            "Projection ignores request_counts and normalises empty buckets; only the ConfigState level is exercised (the worker fan-out of the diff is C08's domain).",
            "DESIGN.md §4 C06"),
    "C07": ("exploration",
            "property-based testing (proptest): generated (state, command) pairs; rejected => state identical, accepted => frame condition on named objects",
            "For generated reachable states and commands biased toward multi-field patches with one invalid field, certificate replacement with unparsable payloads, unknown enum values and missing targets (retargeted at existing objects 75% of the time): a rejected command must leave the strict projection identical, an accepted one may only change entries it names. Bounded exploration of the main-process state model.",
            "Covers command/src/state.rs (the model shared by main process and workers); the worker's proxy-side application of a command is not in this tier.",
            "DESIGN.md §4 C07"),
    "C04": ("exploration",
            "stateful property-based testing (proptest) of Router against a reference model of the documented precedence + metamorphic relations",
            "Generated add/remove histories over overlapping host/path/method alphabets are applied to the real sozu_lib::router::Router; after every operation 351 probes are compared with the admissible set of an independent model of the documented precedence, and metamorphic relations (tree insertion-order permutation, non-matching operation leaves routes unchanged) are checked. Bounded exploration: no proof of absence.",
            "Trusts the reference model's reading of doc/configure.md; regex alphabets never match '.'; IDN hosts other than case variants are not generated; http.rs/https.rs listener glue is not in the loop.",
            "DESIGN.md §4 C04"),
}

NOT_YET = {
}

ALL = ["C%02d" % i for i in range(1, 21)]


def main():
    hooks_commits = []
    try:
        out = subprocess.check_output(["git", "-C", "/repo", "log", "--format=%h %s"], text=True)
        hooks_commits = [l.split()[0] for l in out.splitlines() if l.split(" ", 1)[1].startswith("verif-hooks:")]
    except Exception:
        pass
    checks = []
    for pid in ALL:
        if pid not in CHECKS:
            continue
        cat, tech, text, note, ref = CHECKS[pid]
        checks.append({
            "property_id": pid,
            "quick_cmd": f"./check {pid} quick",
            "thorough_cmd": f"./check {pid} thorough",
            "evidence_file": f"/verif/evidence/{pid}.json",
            "replay_cmd_template": f"./check {pid} quick --replay {{path}}",
            "engine": "vp",
            "level_claimed": {"category": cat, "text": text, "design_ref": ref},
            "level_note": note,
            "technique": tech,
        })
    na = []
    for pid in ALL:
        if pid not in CHECKS:
            na.append({"property_id": pid,
                       "reason": NOT_YET.get(pid, "check not built yet in this session (property-based testing applies; see DESIGN.md §4 and §8 build order) — not claimed until its check exists and is silent on the unchanged tree")})
    m = {
        "version": 1,
        "setup_cmd": "mkdir -p /verif/scratch && cd /verif/harness && CARGO_NET_OFFLINE=true cargo build --profile verif",
        "hooks": {
            "guard": "cargo feature `verif-hooks` on sozu-lib (off by default)",
            "enable": "the harness depends on /repo/lib by path with features = [\"verif-hooks\"] (harness/vp/Cargo.toml)",
            "baseline_off_cmd": "cd /repo && cargo test --workspace --no-fail-fast --offline",
            "source_commits": hooks_commits,
            "add_only": True,
        },
        "engines": [
            {"name": "vp", "path": "/verif/harness/vp", "serves_properties": [c["property_id"] for c in checks],
             "kind_free_text": "one Rust binary: sharded proptest runner (deterministic per VERIF_SEED), reference models, evidence writer, replay files, known-findings classifier; path-depends on /repo/{command,lib,bin} so every run rebuilds from the current tree"},
        ],
        "checks": checks,
        "not_applicable": na,
        "notes": "Exit 0 held / 1 VIOLATION / 2 inconclusive. Known findings: /verif/known_findings.jsonl. Regression replays: /verif/regressions/<ID>/. New failures are written to /verif/replays/<ID>/.",
    }
    with open(os.path.join(ROOT, "MANIFEST.json"), "w") as f:
        json.dump(m, f, indent=1)
        f.write("\n")
    # self-check against the schema when jsonschema is available
    try:
        import jsonschema
        schema = json.load(open("/root/.vp/MANIFEST.schema.json"))
        jsonschema.validate(m, schema)
        print("MANIFEST.json valid:", len(checks), "checks,", len(na), "not_applicable")
    except ImportError:
        print("MANIFEST.json written (jsonschema not importable here)")


if __name__ == "__main__":
    main()
