#!/bin/bash
# tools/seeded_intake.sh <ID> <mN> <agent-out-dir>
# Takes one delivered change (patch.diff, demo.rs, meta.json with demo_dest / demo_cmd) from a sub-agent's
# output directory into /verif/seeded/<ID>/<mN>/ and confirms it in the scratch worktree /tmp/confirm
# (tools/confirm_mutant.sh: the demonstration passes without the patch and fails with it).
set -u
ID=$1; M=$2; SRC=$3
D=/verif/seeded/$ID/$M
[ -f $SRC/patch.diff ] && [ -f $SRC/demo.rs ] && [ -f $SRC/meta.json ] || { echo "$ID/$M: incomplete delivery in $SRC"; exit 2; }
mkdir -p $D && cp $SRC/patch.diff $SRC/demo.rs $SRC/meta.json $D/
git -C /repo apply --check $D/patch.diff || { echo "$ID/$M: patch does not apply to /repo HEAD"; exit 3; }
DEST=$(python3 -c "import json;print(json.load(open('$D/meta.json'))['demo_dest'])")
CMD=$(python3 -c "import json;print(json.load(open('$D/meta.json'))['demo_cmd'])")
# the cargo test arguments: everything after 'cargo test', without --offline (the confirm script adds it)
ARGS=$(echo "$CMD" | sed -e 's/.*cargo test//' -e 's/--offline//g' -e 's/-j *[0-9]*//')
echo "$ID/$M demo_dest=$DEST args=$ARGS"
/verif/tools/confirm_mutant.sh $ID $M $DEST $ARGS
