#!/bin/bash
# tools/revert_check.sh <fix-commit> <ID> [ID...]
# Sensitivity: reverse-apply one "fix:" commit to /repo's working tree, run the quick checks,
# restore the tree. Each listed check is expected to report a VIOLATION (exit 1).
set -u
c="$1"; shift
cd /verif
if ! git -C /repo diff --quiet; then echo "repo working tree dirty, refusing"; exit 2; fi
if ! git -C /repo show "$c" | git -C /repo apply -R --3way 2>/dev/null; then
  git -C /repo checkout -- . ; git -C /repo reset -q
  if ! git -C /repo show "$c" | git -C /repo apply -R; then echo "cannot reverse-apply $c"; git -C /repo checkout -- .; exit 2; fi
fi
git -C /repo reset -q
rc_all=0
for id in "$@"; do
  out=$(./check "$id" quick --scale "${SCALE:-1}" 2>&1); rc=$?
  echo "revert $c -> $id exit=$rc  $(echo "$out" | grep -m1 -A1 '^VIOLATION' | tail -1 | cut -c1-200)"
  [ $rc -eq 1 ] || rc_all=1
done
git -C /repo checkout -- .
exit $rc_all
