#!/bin/bash
# Private copy of the harness for a sub-agent that writes a check: /var/tmp/agent-<name>/harness builds against the
# clean sozu worktree /var/tmp/repo-agents into /var/tmp/agent-<name>-target; its VERIF_ROOT is /var/tmp/agent-<name>
# (own evidence / replays / regressions / known_findings.jsonl), so nothing it runs touches /verif.
set -e
N=$1; D=/var/tmp/agent-$N
rm -rf $D; mkdir -p $D
rsync -a --exclude target /verif/harness/ $D/harness/
ln -sfn /verif/fixtures $D/fixtures
sed -i 's#"/repo/#"/var/tmp/repo-agents/#g' $D/harness/vp/Cargo.toml $D/harness/oracles/Cargo.toml
sed -i "s#pub const VERIF_ROOT: &str = \"/verif\";#pub const VERIF_ROOT: \&str = \"$D\";#" $D/harness/vp/src/engine/mod.rs
cp /verif/known_findings.jsonl $D/
mkdir -p $D/evidence $D/replays $D/scratch
cp -r /verif/regressions $D/regressions
cat > $D/build.sh <<EOS
#!/bin/bash
cd $D/harness && CARGO_NET_OFFLINE=true CARGO_TARGET_DIR=/var/tmp/agent-$N-target cargo build --profile verif 2>&1 | grep -E "^(error|warning: unused)" -A14 | head -80
echo "binary: /var/tmp/agent-$N-target/verif/vp"
EOS
chmod +x $D/build.sh
rm -rf /var/tmp/agent-$N-target; cp -r /var/tmp/vp-main-target /var/tmp/agent-$N-target
echo $D
