#!/bin/bash
# tools/confirm_mutant.sh <ID> <mN> <demo-destination-relative-to-repo> <cargo test args...>
# Confirms a seeded regression in the scratch worktree /tmp/confirm: the demo must FAIL with the patch
# and PASS without it. Writes /verif/seeded/<ID>/<mN>/confirmed.txt.
set -u
ID=$1; M=$2; DEST=$3; shift 3
W=${W:-/tmp/confirm}; D=/verif/seeded/$ID/$M
cd $W && git checkout -q -- . && git clean -fdq -e target
cp $D/${DEMO:-demo.rs} $W/$DEST
for pair in ${EXTRA:-}; do mkdir -p $(dirname $W/${pair##*=}); cp $D/${pair%%=*} $W/${pair##*=}; done
if [ -n "${MODLINE:-}" ]; then echo "$MODLINE" >> $W/$MODFILE; fi
run() { (cd $W && CARGO_NET_OFFLINE=true timeout 1500 cargo test --offline "$@" 2>&1 | grep -a -E "^test result|^test .*(ok|FAILED)$|panicked|error(\[|:)" | head -12); }
echo "--- without patch" > $D/confirmed.txt; run "$@" >> $D/confirmed.txt
git -C $W apply $D/patch.diff || { echo "patch does not apply in worktree" >> $D/confirmed.txt; }
echo "--- with patch" >> $D/confirmed.txt; run "$@" >> $D/confirmed.txt
cd $W && git checkout -q -- . && git clean -fdq -e target
w=$(sed -n '/--- without/,/--- with patch/p' $D/confirmed.txt | grep -c "test result: ok"); p=$(sed -n '/--- with patch/,$p' $D/confirmed.txt | grep -c "FAILED")
echo "$ID/$M confirm: passes_without=$w fails_with=$p"
