#![no_main]
//! Coverage-guided target: the semantic oracle lives in vp-oracles::ppv2 (shared with the `vp` binary,
//! which replays the committed corpus in the quick tier). A violation or a panic in sozu aborts the run.
use libfuzzer_sys::fuzz_target;

fuzz_target!(|data: &[u8]| {
    if let Err(why) = vp_oracles::ppv2(data) {
        panic!("ORACLE VIOLATION: {why}");
    }
});
